#!/bin/bash
# Runs the two sensitivity self-tests (stored seeded changes, catalogued
# mutants) against scratch copies of /repo and stores their verdict tables under
# /verif/evidence/. Not a registered command.
export VERIF_WORKERS=${WORKERS:-8}
head=$(git -C /repo rev-parse --short HEAD)
{ echo "# ./check selftest seeded — /repo $head — $(date -u +%FT%TZ)"; ./check selftest seeded 2>&1 | cut -c1-180; } > /verif/evidence/selftest-seeded.txt
{ echo "# ./check selftest sensitivity — /repo $head — $(date -u +%FT%TZ)"; ./check selftest sensitivity 2>&1 | cut -c1-180; } > /verif/evidence/selftest-sensitivity.txt
tail -1 /verif/evidence/selftest-seeded.txt /verif/evidence/selftest-sensitivity.txt
