#!/bin/bash
# selftest_one.sh seeded|sensitivity OUTSUFFIX [names...]: one of the two
# sensitivity self-tests of tools/selftests.sh (optionally restricted to the
# named properties / entries), so that several can run side by side. Not a
# registered command.
kind=$1; suf=$2; shift 2
export VERIF_WORKERS=${WORKERS:-6}
head=$(git -C /repo rev-parse --short HEAD)
out=/verif/evidence/selftest-$kind$suf.txt
{ echo "# ./check selftest $kind $* — /repo $head — $(date -u +%FT%TZ)"; ./check selftest $kind "$@" 2>&1 | stdbuf -oL cut -c1-180; } > $out
tail -1 $out
