#!/bin/bash
# selftest_one.sh seeded|sensitivity: one of the two sensitivity self-tests of
# tools/selftests.sh, so that both can run side by side. Not a registered command.
kind=$1
export VERIF_WORKERS=${WORKERS:-6}
head=$(git -C /repo rev-parse --short HEAD)
{ echo "# ./check selftest $kind — /repo $head — $(date -u +%FT%TZ)"; ./check selftest $kind 2>&1 | cut -c1-180; } > /verif/evidence/selftest-$kind.txt
tail -1 /verif/evidence/selftest-$kind.txt
