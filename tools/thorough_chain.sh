#!/bin/bash
# Runs the thorough tier of every claimed property in sequence against a
# snapshot of the clean /repo tree (so that seeded changes applied to /repo's
# working tree in the meantime cannot leak in). Summaries go to
# /verif/evidence/thorough/<ID>.json; not a registered command.
snap=/dev/shm/repo-snap-$$
rsync -a --exclude .git /repo/ $snap/ || exit 2
git -C /repo diff --quiet || { echo "/repo not clean at snapshot time"; exit 2; }
head=$(git -C /repo rev-parse --short HEAD)
mkdir -p ${EVID:-/verif/evidence/thorough} /verif/replays/thorough
for p in ${PROPS:-C09 C14 C15 C02 C07 C16 C03 C06 C17 C18 C19 C01 C04 C05 C08 C10}; do
  echo "== $p $(date +%H:%M:%S) repo=$head seed=${VERIF_SEED:-1}"
  VERIF_REPO=$snap VERIF_WORKERS=${WORKERS:-8} VERIF_EVIDENCE_DIR=${EVID:-/verif/evidence/thorough} VERIF_REPLAY_DIR=/verif/replays/thorough ./check $p --tier thorough 2>&1 | cut -c1-600 | head -30
  echo "== $p rc=${PIPESTATUS[0]}"
done
rm -rf $snap
