#!/usr/bin/env python3
"""merge_selftests.py: merge the part tables evidence/selftest-<kind>-<part>.txt
(written by tools/selftest_one.sh, parts in alphabetical order, a later part
overriding an earlier verdict for the same entry) into
evidence/selftest-<kind>.txt; an existing merged table is kept as the base. Not a registered command."""
import glob, os, re
for kind in ("seeded", "sensitivity"):
    parts = sorted(glob.glob("/verif/evidence/selftest-%s-*.txt" % kind))
    if not parts:
        continue
    base = "/verif/evidence/selftest-%s.txt" % kind
    if os.path.exists(base):
        parts = [base] + parts  # an earlier merged table is the starting point
    heads, rows, superseded = [], {}, []
    for p in parts:
        for line in open(p):
            line = line.rstrip("\n")
            if line.startswith("#"):
                if p == base:
                    heads.append(line)
                else:
                    heads.append(line + "  [part %s]" % os.path.basename(p)[len("selftest-%s-" % kind):-4])
                continue
            m = re.match(r"^(\S+)\s+(C\d+)\s+(.*)$", line)
            if not m:
                continue
            if m.group(1) in rows and not rows[m.group(1)][1].startswith("caught"):
                superseded.append("%s: earlier verdict '%s' superseded by a later part" % (m.group(1), rows[m.group(1)][1].split("  ")[0].strip()))
            rows[m.group(1)] = (m.group(2), m.group(3))
    caught = sum(1 for v in rows.values() if v[1].startswith("caught"))
    with open("/verif/evidence/selftest-%s.txt" % kind, "w") as f:
        for h in heads:
            f.write(h + "\n")
        for s in superseded:
            f.write("# " + s + "\n")
        for k in sorted(rows):
            f.write("%-46s %s %s\n" % (k, rows[k][0], rows[k][1]))
        f.write("%s: %d/%d caught\n" % (kind, caught, len(rows)))
    print(kind, caught, len(rows))
