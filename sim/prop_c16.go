package fdosim

import (
	"bytes"
	"context"
	"encoding/binary"
	"fmt"
	"io"
	mrand "math/rand/v2"
	"sort"
	"strings"
	"sync"

	"github.com/fido-device-onboard/go-fdo/cbor"
	"github.com/fido-device-onboard/go-fdo/kex"
	"github.com/fido-device-onboard/go-fdo/protocol"
	"github.com/fido-device-onboard/go-fdo/serviceinfo"
)

// C16 — TO2 service info is delivered exactly once, in order, until the
// modules finish. Real TO2 with scripted modules on both sides; the device's
// producer/consumer goroutines are scheduled by the kernel.

type C16Msg struct {
	Size   int  `json:"size"`
	Splits int  `json:"splits"` // device replies: number of writes
	Break  bool `json:"break"`  // device replies: yield() after this reply
}

type C16Round struct {
	Send    []C16Msg `json:"send"`    // owner -> device logical messages of this round
	Replies []C16Msg `json:"replies"` // device -> owner replies produced for the round
	// ViaYield: the device module does not answer from Receive but from its
	// next Yield callback; with an empty Send the replies are device-initiated
	// (written from Yield once the module is active and the round is reached).
	ViaYield bool `json:"via_yield,omitempty"`
	// YieldOnReceive: the device module asks for a message break (yield) each
	// time it has received a message of this round, whether or not it replies.
	YieldOnReceive bool `json:"yield_on_receive,omitempty"`
}

type C16Module struct {
	Name     string `json:"name"`
	OnDevice bool   `json:"on_device"`
	// SkipActive: a misbehaving owner module that sends messages without ever
	// activating the device module; the device must refuse them.
	SkipActive bool `json:"skip_active,omitempty"`
	// BlockWhenDone: the owner module reports completion and "more to send" in
	// the same call (the interface allows it; the responder has to drop the
	// block, otherwise the device is told to continue with nobody to talk to).
	BlockWhenDone bool       `json:"block_when_done,omitempty"`
	Rounds        []C16Round `json:"rounds"`
}

type C16Plan struct {
	Seed      uint64 `json:"seed"`
	Key       string `json:"key"`
	Enc       uint8  `json:"enc"`
	Sql       bool   `json:"sql"`
	DevMTU    int    `json:"dev_mtu"`    // device receives at most this (MaxServiceInfoSizeReceive)
	OwnerMTU  int    `json:"owner_mtu"`  // owner receives at most this (0 = default)
	ExtraMods int    `json:"extra_mods"` // device modules without owner counterpart
	NameLen   int    `json:"name_len"`
	// Uniform: the extra module names all have exactly NameLen characters, so
	// that a sweep of the owner's MTU walks the module-list chunks through every
	// fill level (exactly full, one byte short, one byte over) at a chosen count.
	Uniform bool        `json:"uniform,omitempty"`
	Modules []C16Module `json:"modules"`
	Sched   SchedPolicy `json:"sched"`
}

type c16 struct{ noPrepare }

func init() { Register(&c16{}) }

func (p *c16) ID() string    { return "C16" }
func (p *c16) Level() string { return "exploration" }
func (p *c16) NewPlan() any  { return &C16Plan{} }
func (p *c16) Rule() string {
	return "real TO2 (EC keys; simstore or sqlite) with generated module scripts: 0-3 owner modules (each present on the device or not), per module 1-3 rounds of owner->device messages of 1..6000 bytes (chunked by the module to the device MTU, using blockPeer when a round spans several protocol messages) and device->owner replies of 1..6000 bytes written in several pieces with yields and forced message breaks; 0-200 additional device module names of varying length; device and owner MTUs from 128 to 65535 (biased to small values); the device's devmod writer, module handler and send/receive loop are interleaved by the seeded scheduler through the verif hooks; oracle: stream model per (module, message) in both directions, devmod descriptors and module list in the owner's session state, strict module sequencing, activation before Receive and inactive answers for unknown modules, per-message MTU compliance measured on the tunnel plaintext, Done right after IsDone; non-trivial = at least one module exchanged data and >=2 tasks were runnable at some step; distinct = distinct (script, schedule, outcome)"
}
func (p *c16) DeadlockIsViolation() bool { return true }
func (p *c16) Exhaustive(string) bool    { return false }
func (p *c16) Components() map[string][]string {
	return map[string][]string{
		"real": {"fdo.TO2 device role incl. exchangeServiceInfo and module dispatch", "TO2Server.ownerServiceInfo / produceOwnerServiceInfo / devmod owner module", "serviceinfo chunking pipes", "Devmod.Write", "http.Handler/Transport, tunnel encryption", "sqlite.DB (sql plans)"},
		"stub": {"scripted owner and device modules", "owner module state machine (per-session, in memory)", "kernel scheduler via the verif hooks", "plaintext taps", "simstore", "clock", "crypto randomness"},
	}
}
func (p *c16) Assumptions() []string {
	return []string{
		"an owner module is responsible for chunking its own values to Producer.Available; the scripted owner module does so and uses blockPeer (IsMoreServiceInfo) when a round spans several protocol messages",
		"owner-side values that span several DeviceServiceInfo messages arrive as consecutive HandleInfo fragments; the scripted owner module concatenates them (C16 allows exactly this)",
		"MTUs below 128 are outside the sampled range (devmod keys alone need tens of bytes)",
	}
}

func (p *c16) NumPlans(tier string) int {
	if tier == "thorough" {
		return 40000
	}
	return 1500
}

func (p *c16) Plan(tier string, seed uint64, i int) any {
	r := mrand.New(mrand.NewPCG(seed*211+9, uint64(i)))
	fam := []struct {
		Key string
		Enc uint8
	}{{"P-256", 1}, {"P-384", 3}, {"P-256", 2}}[i%3]
	mtu := func() int {
		switch r.IntN(6) {
		case 0:
			return 128 + r.IntN(80)
		case 1:
			return 200 + r.IntN(400)
		case 2:
			return 1300
		case 3:
			return 600 + r.IntN(3000)
		case 4:
			return 4000 + r.IntN(61536)
		}
		return 65535
	}
	pl := &C16Plan{Seed: seed*1_000_003 + uint64(i), Key: fam.Key, Enc: fam.Enc, Sql: i%9 == 4, DevMTU: mtu(), OwnerMTU: mtu(),
		Sched: []SchedPolicy{SchedRandom, SchedPCT, SchedRandom}[i%3], NameLen: 1 + r.IntN(40)}
	if r.IntN(5) == 0 {
		pl.OwnerMTU = 0
	}
	switch r.IntN(4) {
	case 0:
		pl.ExtraMods = 0
	case 1:
		pl.ExtraMods = r.IntN(6)
	case 2:
		pl.ExtraMods = r.IntN(60)
	default:
		pl.ExtraMods = 100 + r.IntN(101)
	}
	size := func() int {
		switch r.IntN(5) {
		case 0:
			return 1 + r.IntN(8)
		case 1:
			return 1 + r.IntN(6000)
		}
		return 1 + r.IntN(400)
	}
	nm := r.IntN(4)
	for m := 0; m < nm; m++ {
		mod := C16Module{Name: fmt.Sprintf("fdo.sim%d%s", m, strings.Repeat("x", r.IntN(12))), OnDevice: r.IntN(5) != 0, BlockWhenDone: r.IntN(4) == 0}
		for rd, nr := 0, 1+r.IntN(3); rd < nr; rd++ {
			var round C16Round
			for k, n := 0, r.IntN(4); k < n; k++ {
				round.Send = append(round.Send, C16Msg{Size: size()})
			}
			for k, n := 0, r.IntN(4); k < n; k++ {
				round.Replies = append(round.Replies, C16Msg{Size: size(), Splits: 1 + r.IntN(4), Break: r.IntN(5) == 0})
			}
			round.ViaYield = len(round.Replies) > 0 && r.IntN(3) == 0
			round.YieldOnReceive = r.IntN(4) == 0
			if len(round.Send) == 0 && len(round.Replies) > 0 && !round.ViaYield {
				round.Send = []C16Msg{{Size: size()}}
			}
			mod.Rounds = append(mod.Rounds, round)
		}
		pl.Modules = append(pl.Modules, mod)
	}
	if j := i / 9; i%9 == 7 && j < 12 {
		// a message packed with exactly 22..24 or 254..256 small key/values (the
		// CBOR array head of the message grows at 24 and 256 elements) followed by
		// a value that fills whatever space is left
		n := []int{22, 23, 24, 254, 255, 256}[j%6]
		pl.OwnerMTU = []int{700, 1300}[j/6]
		if n > 100 {
			pl.OwnerMTU = []int{8000, 20000}[j/6]
		}
		pl.DevMTU, pl.Sql, pl.ExtraMods = 1300, false, 0
		var replies []C16Msg
		for k := 0; k < n; k++ {
			replies = append(replies, C16Msg{Size: 1, Splits: 1})
		}
		replies = append(replies, C16Msg{Size: 3 * pl.OwnerMTU, Splits: 1})
		pl.Modules = []C16Module{{Name: "fdo.simpack", OnDevice: true, Rounds: []C16Round{{Send: []C16Msg{{Size: 4}}, Replies: replies}}}}
		return pl
	}
	if j := i / 9; i%9 == 8 && j < 162 {
		// module-list boundary sweep: chunks that close at 22..24 names (CBOR
		// array head grows at 24 elements) and at 254..256 names (head grows
		// again), for every fill level of the message
		pl.Modules, pl.Uniform, pl.DevMTU, pl.Sql = nil, true, 1300, false
		if j < 87 {
			pl.NameLen, pl.ExtraMods, pl.OwnerMTU = 8, 60, 198+j
		} else {
			pl.NameLen, pl.ExtraMods, pl.OwnerMTU = 4, 300, 1270+(j-87)
		}
		return pl
	}
	if i%25 == 7 {
		pl.Modules = []C16Module{{Name: "fdo.simrogue", OnDevice: true, SkipActive: true, Rounds: []C16Round{{Send: []C16Msg{{Size: 10 + r.IntN(300)}}}}}}
	}
	return pl
}

func (p *c16) Shrink(plan any) []any {
	pl := plan.(*C16Plan)
	var out []any
	if pl.ExtraMods > 0 {
		for _, n := range []int{0, pl.ExtraMods / 2, pl.ExtraMods - 1} {
			if n < pl.ExtraMods {
				c := *pl
				c.ExtraMods = n
				out = append(out, &c)
			}
		}
	}
	for i := range pl.Modules {
		c := *pl
		c.Modules = append(append([]C16Module(nil), pl.Modules[:i]...), pl.Modules[i+1:]...)
		out = append(out, &c)
	}
	for i, m := range pl.Modules {
		if len(m.Rounds) > 1 {
			c := *pl
			c.Modules = append([]C16Module(nil), pl.Modules...)
			cm := m
			cm.Rounds = m.Rounds[:len(m.Rounds)-1]
			c.Modules[i] = cm
			out = append(out, &c)
		}
	}
	if pl.Sql {
		c := *pl
		c.Sql = false
		out = append(out, &c)
	}
	if pl.Sched != SchedFIFO {
		c := *pl
		c.Sched = SchedFIFO
		out = append(out, &c)
	}
	if pl.NameLen > 1 {
		c := *pl
		c.NameLen = 1
		out = append(out, &c)
	}
	return out
}

// --- scripted modules ---

func c16Payload(mod string, round, idx, size int, dir byte) []byte {
	b := make([]byte, size)
	seed := uint32(len(mod)*131 + round*31 + idx*7 + int(dir))
	for i := range b {
		seed = seed*1664525 + 1013904223
		b[i] = byte(seed >> 24)
	}
	return b
}

// frame prefixes a logical message with its length so that the receiver can
// delimit it in a byte stream.
func c16Frame(p []byte) []byte {
	return append(binary.BigEndian.AppendUint32(nil, uint32(len(p))), p...)
}

type c16Log struct {
	mu sync.Mutex
	ev []string
	// streams[dir][module] = concatenation of everything received for it
	ownerGot map[string][]byte
	devGot   map[string][][]byte // per module: one entry per Receive call
	active   map[string][]bool   // owner side: active answers per module
	order    []string            // owner module callback order (module names, deduplicated runs)
	errs     []string
}

func (l *c16Log) add(f string, a ...any) {
	l.mu.Lock()
	l.ev = append(l.ev, fmt.Sprintf(f, a...))
	l.mu.Unlock()
}

type c16Owner struct {
	spec    C16Module
	log     *c16Log
	maxIdle int

	activated bool
	gotActive bool
	isActive  bool
	round     int
	queue     [][2][]byte // (name, remaining bytes) of the current round
	queued    bool
	replyBuf  []byte
	repliesOK int
	idle      int
}

func (m *c16Owner) touch() {
	m.log.mu.Lock()
	if n := len(m.log.order); n == 0 || m.log.order[n-1] != m.spec.Name {
		m.log.order = append(m.log.order, m.spec.Name)
	}
	m.log.mu.Unlock()
}

func (m *c16Owner) HandleInfo(ctx context.Context, name string, body io.Reader) error {
	m.touch()
	b, err := io.ReadAll(body)
	if err != nil {
		return err
	}
	m.log.add("owner %s HandleInfo(%s,%d)", m.spec.Name, name, len(b))
	if name == "active" {
		var a bool
		if err := cbor.Unmarshal(b, &a); err != nil {
			return fmt.Errorf("active: %w", err)
		}
		m.gotActive, m.isActive = true, a
		m.log.mu.Lock()
		m.log.active[m.spec.Name] = append(m.log.active[m.spec.Name], a)
		m.log.mu.Unlock()
		return nil
	}
	m.log.mu.Lock()
	m.log.ownerGot[m.spec.Name+"/"+name] = append(m.log.ownerGot[m.spec.Name+"/"+name], b...)
	m.log.mu.Unlock()
	// count completed replies of this round: every reply is framed
	m.replyBuf = append(m.replyBuf, b...)
	for len(m.replyBuf) >= 4 {
		n := int(binary.BigEndian.Uint32(m.replyBuf))
		if len(m.replyBuf) < 4+n {
			break
		}
		m.replyBuf = m.replyBuf[4+n:]
		m.repliesOK++
	}
	return nil
}

func (m *c16Owner) ProduceInfo(ctx context.Context, pr *serviceinfo.Producer) (bool, bool, error) {
	m.touch()
	if m.spec.SkipActive && !m.activated {
		m.activated, m.gotActive, m.isActive = true, true, true
	}
	if !m.activated {
		m.activated = true
		b, _ := cbor.Marshal(true)
		m.log.add("owner %s Produce active", m.spec.Name)
		return false, false, pr.WriteChunk("active", b)
	}
	if !m.gotActive {
		if m.idle++; m.idle > m.maxIdle {
			return false, false, fmt.Errorf("device never answered active for %s", m.spec.Name)
		}
		return false, false, nil
	}
	if !m.isActive {
		m.log.add("owner %s done (device inactive)", m.spec.Name)
		return false, true, nil
	}
	for {
		if m.round >= len(m.spec.Rounds) {
			m.log.add("owner %s done", m.spec.Name)
			return m.spec.BlockWhenDone, true, nil
		}
		rd := m.spec.Rounds[m.round]
		if !m.queued {
			m.queued = true
			m.queue = nil
			for i, s := range rd.Send {
				name := fmt.Sprintf("q%d", (m.round*5+i)%7)
				m.queue = append(m.queue, [2][]byte{[]byte(name), c16Frame(c16Payload(m.spec.Name, m.round, i, s.Size, 'o'))})
			}
		}
		// emit as much of the round as fits this message
		wrote := false
		for len(m.queue) > 0 {
			name := string(m.queue[0][0])
			avail := pr.Available(name)
			if avail <= 0 {
				if !wrote {
					return false, false, fmt.Errorf("no room for a single byte of %s:%s", m.spec.Name, name)
				}
				return true, false, nil // more of this round in the next message
			}
			rest := m.queue[0][1]
			n := min(avail, len(rest))
			if err := pr.WriteChunk(name, rest[:n]); err != nil {
				return false, false, err
			}
			wrote = true
			if n == len(rest) {
				m.queue = m.queue[1:]
			} else {
				m.queue[0][1] = rest[n:]
				return true, false, nil
			}
		}
		if m.repliesOK < len(rd.Replies) {
			if !wrote {
				if m.idle++; m.idle > m.maxIdle {
					return false, false, fmt.Errorf("module %s round %d: %d of %d replies after %d polls", m.spec.Name, m.round, m.repliesOK, len(rd.Replies), m.idle)
				}
			}
			return false, false, nil
		}
		// round complete
		// replies of a later, device-initiated round may already have arrived
		m.idle, m.repliesOK, m.queued = 0, m.repliesOK-len(rd.Replies), false
		m.round++
		if wrote {
			done := m.round >= len(m.spec.Rounds)
			return done && m.spec.BlockWhenDone, done, nil
		}
	}
}

type c16Device struct {
	spec      C16Module
	log       *c16Log
	k         *Kernel
	round     int
	seen      int // owner messages received in the current round
	activeNow bool
	deferred  []int // rounds whose replies wait for the next Yield
}

func (d *c16Device) Transition(active bool) error {
	d.log.add("device %s Transition(%v)", d.spec.Name, active)
	d.activeNow = active
	return nil
}

func (d *c16Device) Receive(ctx context.Context, name string, body io.Reader, respond func(string) io.Writer, yield func()) error {
	b, err := io.ReadAll(body)
	if err != nil {
		return err
	}
	d.k.Yield("mod.receive")
	d.log.add("device %s Receive(%s,%d) active=%v", d.spec.Name, name, len(b), d.activeNow)
	d.log.mu.Lock()
	if !d.activeNow {
		d.log.errs = append(d.log.errs, fmt.Sprintf("module %s received %q before being activated", d.spec.Name, name))
	}
	d.log.devGot[d.spec.Name] = append(d.log.devGot[d.spec.Name], append([]byte(name+"="), b...))
	d.log.mu.Unlock()
	d.skipSilent()
	if d.round >= len(d.spec.Rounds) {
		return nil
	}
	rd := d.spec.Rounds[d.round]
	d.seen++
	if rd.YieldOnReceive {
		yield()
	}
	if d.seen < len(rd.Send) {
		return nil
	}
	// the whole round arrived: send the replies (now, or from the next Yield)
	d.seen = 0
	d.round++
	if rd.ViaYield {
		d.deferred = append(d.deferred, d.round-1)
		return nil
	}
	return d.sendReplies(d.round-1, respond, yield)
}

// skipSilent passes over rounds in which neither side says anything, and
// rounds without owner messages that are answered from Yield are left for Yield.
func (d *c16Device) skipSilent() {
	for d.round < len(d.spec.Rounds) && len(d.spec.Rounds[d.round].Send) == 0 && len(d.spec.Rounds[d.round].Replies) == 0 {
		d.round++
	}
}

func (d *c16Device) sendReplies(round int, respond func(string) io.Writer, yield func()) error {
	rd := d.spec.Rounds[round]
	for i, rp := range rd.Replies {
		w := respond(fmt.Sprintf("r%d", (round*3+i)%5))
		data := c16Frame(c16Payload(d.spec.Name, round, i, rp.Size, 'd'))
		parts := max(1, rp.Splits)
		for p := 0; p < parts; p++ {
			lo, hi := len(data)*p/parts, len(data)*(p+1)/parts
			if hi > lo {
				if _, err := w.Write(data[lo:hi]); err != nil {
					return fmt.Errorf("reply write: %w", err)
				}
			}
			d.k.Yield("mod.midwrite")
		}
		if rp.Break {
			yield()
		}
	}
	return nil
}

func (d *c16Device) Yield(ctx context.Context, respond func(string) io.Writer, yield func()) error {
	d.log.add("device %s Yield active=%v deferred=%v round=%d", d.spec.Name, d.activeNow, d.deferred, d.round)
	if !d.activeNow {
		return nil
	}
	for _, r := range d.deferred {
		if err := d.sendReplies(r, respond, yield); err != nil {
			return err
		}
	}
	d.deferred = nil
	// device-initiated rounds: nothing to wait for from the owner
	d.skipSilent()
	for d.seen == 0 && d.round < len(d.spec.Rounds) && len(d.spec.Rounds[d.round].Send) == 0 && d.spec.Rounds[d.round].ViaYield {
		d.round++
		if err := d.sendReplies(d.round-1, respond, yield); err != nil {
			return err
		}
		d.skipSilent()
	}
	return nil
}

func (p *c16) Exec(env *Env, plan any) {
	pl := plan.(*C16Plan)
	o := env.Out
	cfg := keyCfgByName(pl.Key, pl.Enc)
	ctx := context.Background()
	k := NewKernel(pl.Seed, pl.Sched, 600000)
	s, cleanup := NewStdSql(k, cfg, map[string]bool{"owner1": pl.Sql})
	defer cleanup()
	defer InstallHooks(nil)
	s.Net.MaxMsgs = 3000
	// state methods do not yield here: the interleavings of interest are those
	// of the device pipeline
	for _, n := range s.Nodes {
		if n.Sim != nil {
			n.Sim.SetYield(nil)
		}
		if jb, ok := n.Store.(*journalBackend); ok {
			jb.yield = nil
		}
	}
	var sentOrder []string
	inner := serviceinfo.SimOrder
	serviceinfo.SimOrder = func(names []string) {
		inner(names)
		sentOrder = append([]string(nil), names...)
	}
	lg := &c16Log{ownerGot: map[string][]byte{}, devGot: map[string][][]byte{}, active: map[string][]bool{}}
	o1 := s.Nodes["owner1"]
	if pl.OwnerMTU > 0 {
		o1.MaxDevSISize = uint16(pl.OwnerMTU)
	}
	maxIdle := 40
	o1.Mods = &ModSM{Factory: func(ctx context.Context, token string) []NamedModule {
		var out []NamedModule
		for _, m := range pl.Modules {
			out = append(out, NamedModule{Name: m.Name, Mod: &c16Owner{spec: m, log: lg, maxIdle: maxIdle}})
		}
		return out
	}}
	tap := NewTunnelTap()
	o1.WrapTO2 = func(r protocol.Responder) protocol.Responder { return tapResponder{r, tap} }
	devMods := map[string]serviceinfo.DeviceModule{}
	var devNames []string
	for _, m := range pl.Modules {
		if m.OnDevice {
			devMods[m.Name] = &c16Device{spec: m, log: lg, k: k}
			devNames = append(devNames, m.Name)
		}
	}
	for i := 0; i < pl.ExtraMods; i++ {
		name := fmt.Sprintf("x%d.%s", i, strings.Repeat("n", (pl.NameLen+i)%41))
		if pl.Uniform {
			name = fmt.Sprintf("%0*d", pl.NameLen, i)
		}
		devMods[name] = &c16Device{spec: C16Module{Name: name}, log: lg, k: k}
		devNames = append(devNames, name)
	}
	var terr error
	var d1 *Device
	gotAtReturn := map[string]int{}
	k.Go("dev1", func() {
		var err error
		d1, _, err = s.Provision(ctx, "dev1", "dev1", "mfg", "owner1")
		if err != nil {
			terr = fmt.Errorf("provision: %w", err)
			return
		}
		_, terr = s.TO2(ctx, d1, "owner1", nil, TO2Opts{Kex: defaultKex(cfg), Cipher: kex.A128GcmCipher, Modules: devMods, MTU: uint16(pl.DevMTU),
			Transport: tapTransport{s.Transport("dev1", "owner1"), tap}})
		// what the device modules had received at the moment TO2 returned
		lg.mu.Lock()
		for name, msgs := range lg.devGot {
			gotAtReturn[name] = len(msgs)
		}
		lg.mu.Unlock()
	})
	k.Run()
	o.Steps, o.MultiSteps = k.Steps, k.MultiSteps
	o.Sched = fmt.Sprintf("%s:%016x", pl.Sched, k.TraceHash())
	env.Logf("plan devmtu=%d ownermtu=%d extra=%d modules=%d sql=%v sched=%s steps=%d err=%v", pl.DevMTU, pl.OwnerMTU, pl.ExtraMods, len(pl.Modules), pl.Sql, o.Sched, k.Steps, terr)
	for _, e := range lg.ev {
		env.Logf("%s", e)
	}
	for _, ev := range s.Net.Log {
		env.Logf("%d %s>%s %s %d/%d %d %s", ev.Seq, ev.From, ev.To, ev.Phase, ev.MsgType, ev.RespType, ev.Status, ev.BodyHash)
	}
	for _, pr := range s.Net.Panics {
		o.Violate("C16", "panic", pr.Frame, "panic in %s: %s", pr.Where, pr.Value)
	}
	desc := fmt.Sprintf("devMTU=%d ownerMTU=%d extraMods=%d", pl.DevMTU, pl.OwnerMTU, pl.ExtraMods)
	if dbgTap != nil {
		dbgTap(tap)
	}
	if k.Deadlock || o.Deadlock {
		o.Class = "DEADLOCK"
		o.Violate("C16", "deadlock", "pipeline", "TO2 deadlocked (%s)", desc)
		return
	}
	if k.Exhausted || s.Net.Exhausted {
		o.Class = "BUDGET"
		o.Violate("C16", "no-termination", "budget", "TO2 did not terminate within the step/message budget (%s, steps=%d)", desc, k.Steps)
		return
	}
	rogue := len(pl.Modules) == 1 && pl.Modules[0].SkipActive
	if rogue {
		// the owner module never activated the device module: nothing may reach it
		o.Nontrivial = true
		o.Fault("owner-module-skips-activation")
		if len(lg.devGot[pl.Modules[0].Name]) > 0 || len(lg.errs) > 0 {
			o.Class = "RECEIVE-WITHOUT-ACTIVATION"
			o.Violate("C16", "activation-order", "receive-before-active", "device module received %d message(s) although the owner never activated it", len(lg.devGot[pl.Modules[0].Name]))
			return
		}
		if terr == nil {
			o.Probe("unactivated-module-messages-ignored-without-error")
		}
		o.Class = "unactivated-refused"
		return
	}
	if terr != nil {
		o.Class = "TO2-FAILED"
		o.Violate("C16", "to2-failed", c16ErrClass(terr), "TO2 failed (%s): %v", desc, terr)
		return
	}
	for _, e := range lg.errs {
		o.Violate("C16", "activation-order", "receive-before-active", "%s", e)
	}
	// (1) devmod and module list in the owner's session state: last SetDevmod
	//     is visible in the plaintext only indirectly; use the store
	//     (session is gone after Done, so the check reads the tap instead)
	wantMods := append(append([]string(nil), sentOrder...), "devmod")
	gotMods, gotDevmod, ok := c16DevmodFromTap(tap)
	if !ok {
		o.Violate("C16", "devmod", "not-parsed", "could not reassemble devmod from the device's plaintext messages")
	} else {
		if strings.Join(gotMods, ",") != strings.Join(wantMods, ",") {
			o.Class = "MODULE-LIST"
			o.Violate("C16", "devmod", "module-list", "module list on the wire has %d names, device has %d (%s): first difference at %d", len(gotMods), len(wantMods), desc, firstDiff(gotMods, wantMods))
		}
		for _, f := range []string{"os", "arch", "version", "device", "sep", "bin"} {
			if _, ok := gotDevmod[f]; !ok {
				o.Violate("C16", "devmod", "descriptor-missing", "devmod descriptor %q missing", f)
			}
		}
	}
	// (2) owner modules strictly one after another, in order
	var wantOrder []string
	for _, m := range pl.Modules {
		wantOrder = append(wantOrder, m.Name)
	}
	if strings.Join(lg.order, ",") != strings.Join(wantOrder, ",") {
		o.Class = "MODULE-ORDER"
		o.Violate("C16", "module-sequencing", "order", "owner modules ran as %v, expected %v", lg.order, wantOrder)
	}
	// (3) unknown modules answer inactive, known ones active; streams
	exchanged := false
	for _, m := range pl.Modules {
		act := lg.active[m.Name]
		if len(act) != 1 || act[0] != m.OnDevice {
			o.Class = "ACTIVE"
			o.Violate("C16", "activation", fmt.Sprintf("on-device=%v", m.OnDevice), "module %s (on device: %v) answered active %v", m.Name, m.OnDevice, act)
			continue
		}
		if !m.OnDevice {
			if len(lg.devGot[m.Name]) != 0 {
				o.Violate("C16", "activation", "unknown-received", "unknown module %s received messages", m.Name)
			}
			continue
		}
		// owner -> device: one Receive per logical message, in order, exact bytes
		var wantDev [][]byte
		wantOwner := map[string][]byte{}
		for ri, rd := range m.Rounds {
			for i, sm := range rd.Send {
				name := fmt.Sprintf("q%d", (ri*5+i)%7)
				wantDev = append(wantDev, append([]byte(name+"="), c16Frame(c16Payload(m.Name, ri, i, sm.Size, 'o'))...))
			}
			for i, rp := range rd.Replies {
				name := fmt.Sprintf("r%d", (ri*3+i)%5)
				wantOwner[name] = append(wantOwner[name], c16Frame(c16Payload(m.Name, ri, i, rp.Size, 'd'))...)
			}
		}
		if n := len(lg.devGot[m.Name]); gotAtReturn[m.Name] < n {
			o.Class = "LATE-DELIVERY"
			o.Violate("C16", "owner-to-device-stream", "after-to2-returned", "module %s: %d of %d messages reached the device module only after TO2 had returned (%s)", m.Name, n-gotAtReturn[m.Name], n, desc)
		}
		gotDev := c16MergeSameName(lg.devGot[m.Name])
		wantDevM := c16MergeSameName(wantDev)
		if len(gotDev) != len(wantDevM) {
			o.Class = "STREAM"
			o.Violate("C16", "owner-to-device-stream", "count", "module %s: device received %d messages, owner sent %d (%s)", m.Name, len(gotDev), len(wantDevM), desc)
		} else {
			for i := range wantDevM {
				if !bytes.Equal(gotDev[i], wantDevM[i]) {
					o.Class = "STREAM"
					o.Violate("C16", "owner-to-device-stream", "content", "module %s message %d: device received %d bytes, owner sent %d (%s)", m.Name, i, len(gotDev[i]), len(wantDevM[i]), desc)
					break
				}
			}
		}
		for name, w := range wantOwner {
			if g := lg.ownerGot[m.Name+"/"+name]; !bytes.Equal(g, w) {
				o.Class = "STREAM"
				o.Violate("C16", "device-to-owner-stream", "content", "module %s reply stream %s: owner received %d bytes, device wrote %d (%s)", m.Name, name, len(g), len(w), desc)
			}
		}
		for key := range lg.ownerGot {
			if strings.HasPrefix(key, m.Name+"/") && wantOwner[strings.TrimPrefix(key, m.Name+"/")] == nil {
				o.Violate("C16", "device-to-owner-stream", "unexpected", "owner received an unexpected stream %s", key)
			}
		}
		if len(wantDev) > 0 {
			exchanged = true
		}
	}
	if dbgTap != nil {
		dbgTap(tap)
	}
	// (5) MTU compliance on the plaintext
	sendMTU := pl.OwnerMTU
	if sendMTU == 0 {
		sendMTU = 1300
	}
	tap.mu.Lock()
	for i, b := range tap.Sent["d2o"] {
		if tap.Msg["d2o"][i] != 68 {
			continue
		}
		if n, err := ParseCBOR(b); err == nil && len(n.Kids) == 2 {
			// the device side budgets the whole message against the negotiated size
			// (exchangeServiceInfo reserves the framing around the key/value array)
			if sz := len(b); sz > sendMTU {
				o.Class = "MTU"
				o.Violate("C16", "mtu-exceeded", "device-to-owner", "DeviceServiceInfo #%d is %d bytes, owner accepts %d", i, sz, sendMTU)
			}
		}
	}
	lastDone := false
	for i, b := range tap.Sent["o2d"] {
		if tap.Msg["o2d"][i] != 69 {
			continue
		}
		if n, err := ParseCBOR(b); err == nil && len(n.Kids) == 3 {
			// the owner side budgets the key/value array alone against the
			// negotiated size (produceOwnerServiceInfo), so that is the budget the
			// batch was given in this direction
			if sz := len(n.Kids[2].Encode(nil)); sz > pl.DevMTU {
				o.Class = "MTU"
				o.Violate("C16", "mtu-exceeded", "owner-to-device", "OwnerServiceInfo #%d carries %d bytes of service info, device accepts %d", i, sz, pl.DevMTU)
			}
			lastDone = n.Kids[1].Major == 7 && n.Kids[1].Arg == 21
		}
	}
	tap.mu.Unlock()
	// (6) Done exactly after IsDone
	var seq []int
	for _, ev := range s.Net.Log {
		if ev.Phase == "resp" && ev.To == "dev1" && ev.RespType >= 65 {
			seq = append(seq, ev.RespType)
		}
	}
	if n := len(seq); n < 2 || seq[n-1] != 71 || seq[n-2] != 69 || !lastDone {
		o.Class = "DONE"
		o.Violate("C16", "done-after-isdone", "sequence", "TO2 did not end with OwnerServiceInfo(IsDone) followed by Done2: tail %v lastDone=%v", seq[max(0, len(seq)-3):], lastDone)
	}
	if o.Class == "" {
		o.Class = "delivered"
	}
	o.Nontrivial = exchanged && k.MultiSteps > 0
	o.Sample = map[string]any{"dev_mtu": pl.DevMTU, "owner_mtu": pl.OwnerMTU, "device_modules": len(devNames), "owner_modules": len(pl.Modules), "steps": k.Steps, "messages": len(s.Net.Log) / 2}
	_ = sort.Strings
}

// dbgTap is a debugging aid used by tests.
var dbgTap func(*TunnelTap)

func firstDiff(a, b []string) int {
	for i := 0; i < len(a) && i < len(b); i++ {
		if a[i] != b[i] {
			return i
		}
	}
	return min(len(a), len(b))
}

func c16ErrClass(err error) string {
	s := err.Error()
	for _, k := range []string{"unexpected EOF", "exceeding the MTU", "MTU too small", "does not fit", "did not read full body", "never answered", "replies after", "no room", "closed pipe", "invalid devmod"} {
		if strings.Contains(s, k) {
			return k
		}
	}
	return "other"
}

// c16MergeSameName merges consecutive entries "name=bytes" with the same name
// (the chunking layer concatenates consecutive equal keys by design).
func c16MergeSameName(in [][]byte) [][]byte {
	var out [][]byte
	for _, e := range in {
		name, data, _ := bytes.Cut(e, []byte("="))
		if n := len(out); n > 0 {
			pn, _, _ := bytes.Cut(out[n-1], []byte("="))
			if bytes.Equal(pn, name) {
				out[n-1] = append(out[n-1], data...)
				continue
			}
		}
		out = append(out, append([]byte(nil), e...))
	}
	return out
}

// c16DevmodFromTap reassembles the devmod messages from the device's
// plaintext DeviceServiceInfo messages (independent of the owner's parser).
func c16DevmodFromTap(tap *TunnelTap) (modules []string, fields map[string][]byte, ok bool) {
	tap.mu.Lock()
	defer tap.mu.Unlock()
	fields = map[string][]byte{}
	var modBuf []byte
	prevKey := ""
	streams := map[string][]byte{}
	var order []string
	for i, b := range tap.Sent["d2o"] {
		if tap.Msg["d2o"][i] != 68 {
			continue
		}
		n, err := ParseCBOR(b)
		if err != nil || len(n.Kids) != 2 {
			return nil, nil, false
		}
		for _, kv := range n.Kids[1].Kids {
			if len(kv.Kids) != 2 {
				return nil, nil, false
			}
			key := string(kv.Kids[0].Bytes)
			if !strings.HasPrefix(key, "devmod:") {
				prevKey = key
				continue
			}
			if key != prevKey || key == "devmod:modules" {
				order = append(order, key)
			}
			streams[key] = append(streams[key], kv.Kids[1].Bytes...)
			if key == "devmod:modules" {
				modBuf = append(modBuf, kv.Kids[1].Bytes...)
			}
			prevKey = key
		}
	}
	for k, v := range streams {
		fields[strings.TrimPrefix(k, "devmod:")] = v
	}
	// modules stream: a sequence of CBOR arrays [start, len, names...]
	for len(modBuf) > 0 {
		n, err := ParseCBORPrefix(modBuf)
		if err != nil || n.Major != 4 || len(n.Kids) < 2 {
			return nil, fields, false
		}
		for _, nm := range n.Kids[2:] {
			modules = append(modules, string(nm.Bytes))
		}
		modBuf = modBuf[n.End:]
	}
	return modules, fields, true
}
