package fdosim

import (
	"bytes"
	"crypto/ecdh"
	"crypto/hmac"
	"crypto/rand"
	"crypto/rsa"
	"crypto/sha256"
	"crypto/sha512"
	"encoding"
	"encoding/binary"
	"fmt"
	"hash"
	"math/big"
	mrand "math/rand/v2"
	"sync"

	"github.com/fido-device-onboard/go-fdo/cbor"
	"github.com/fido-device-onboard/go-fdo/kex"
)

// C14 — key exchange yields equal, fresh, correctly derived keys and survives
// persistence. Two parties (owner session persisted and restored like a
// server that reloads it for every message, device session in memory) over a
// channel that can alter the parameters in transit.

type C14Plan struct {
	Seed    uint64 `json:"seed"`
	Kex     string `json:"kex"`
	Cipher  string `json:"cipher"`
	Restore int    `json:"restore"` // bit 0: after Parameter, bit 1: after SetParameter, bit 2: between every Encrypt/Decrypt
	Msgs    int    `json:"msgs"`
	Fault   string `json:"fault"` // none or a parameter alteration
	OnB     bool   `json:"on_b"`  // alter xB (device -> owner) instead of xA
}

type c14 struct{ noPrepare }

func init() { Register(&c14{}) }

func (p *c14) ID() string    { return "C14" }
func (p *c14) Level() string { return "exploration" }
func (p *c14) NewPlan() any  { return &C14Plan{} }
func (p *c14) Rule() string {
	return "two-party key exchange for all 6 suites x 7 ciphers with seeded randomness on both sides; the owner session is serialised and restored (fresh object, as the sqlite backend does) at any subset of the three restore points (after Parameter, after SetParameter, between every Encrypt/Decrypt); oracles: SEK/SVK equal on both sides and of the cipher's exact key lengths, equal to the harness' own SP 800-108 counter-mode KDF over the shared secret recomputed from the persisted private state with math/big / crypto/ecdh / RSA-OAEP (DH primes recomputed from the digits of pi per RFC 3526), cross-party Encrypt/Decrypt after every restore point, keys and IVs of the two independent sessions of a run distinct; parameter faults in transit: DH {empty,0,1,2,p-2,p-1,p,p+1,2p}, ECDH wrong lengths/off-curve/swapped/truncated/identity/empty random, OAEP wrong size and flipped bit; non-trivial = a restore point or a parameter fault was exercised; distinct = distinct (suite, cipher, restore mask, fault, outcome, log hash)"
}
func (p *c14) Exhaustive(string) bool { return false }
func (p *c14) Components() map[string][]string {
	return map[string][]string{
		"real": {"kex.ECDHSession, DHSession, OAEPSession (Parameter, SetParameter, Marshal/UnmarshalBinary)", "kex.SessionCrypter", "internal/nistkdf (through the sessions)", "cose encryption"},
		"stub": {"channel between the parties (parameter faults)", "persistence (serialise/restore)", "crypto randomness (seeded)", "reference KDF and group arithmetic"},
	}
}
func (p *c14) Assumptions() []string {
	return []string{
		"reference derivation: K(i) = HMAC(ShSe, [i]8 || \"FIDO-KDF\" || 0x00 || \"AutomaticOnboardTunnel\" || ContextRand || [L]16), ShSe = Shx||DeviceRandom||OwnerRandom for ECDH, the group-size DH secret for DH, the device random (with the owner random as ContextRand) for ASYMKEX; validated against the test vector shipped in internal/nistkdf",
		"DH public values 2 and p-2 are inside the valid range; accepting them is not judged",
		"the exact SVK length of the encrypt-then-MAC suites is not asserted (the FDO cipher table was not available offline; the observed lengths are reported as probes); SEK length, SVK presence, equality on both sides and the derivation for the observed total length L are",
	}
}

var c14DHFaults = []string{"dh:empty", "dh:0", "dh:1", "dh:2", "dh:p-2", "dh:p-1", "dh:p", "dh:p+1", "dh:2p"}
var c14ECFaults = []string{"ec:short-x", "ec:long-x", "ec:flip-y", "ec:swap-xy", "ec:truncate", "ec:identity", "ec:empty-rand", "ec:other-curve", "ec:empty"}
var c14OAEPFaults = []string{"oaep:short", "oaep:long", "oaep:flip", "oaep:empty"}

func c14Faults(kx string) []string {
	switch kx {
	case "DHKEXid14", "DHKEXid15":
		return c14DHFaults
	case "ECDH256", "ECDH384":
		return c14ECFaults
	}
	return c14OAEPFaults
}

func (p *c14) NumPlans(tier string) int {
	if tier == "thorough" {
		return 200000
	}
	return 9000
}

func (p *c14) Plan(tier string, seed uint64, i int) any {
	r := mrand.New(mrand.NewPCG(seed*31+7, uint64(i)))
	// dense index over the honest (non-fault) plans so that every suite x cipher
	// x restore mask combination occurs
	h := i/3*2 + i%3
	kx := KexNames[h%len(KexNames)]
	c := CipherSpecs[(h/len(KexNames))%len(CipherSpecs)]
	pl := &C14Plan{Seed: seed*1_000_003 + uint64(i), Kex: kx, Cipher: c.Name, Restore: (h / 42) % 8, Msgs: 2 + r.IntN(5), Fault: "none"}
	// one third of the plans alter a parameter in transit
	if i%3 == 2 {
		j := i / 3
		kx = KexNames[j%len(KexNames)]
		pl.Kex = kx
		f := c14Faults(kx)
		pl.Fault = f[(j/len(KexNames))%len(f)]
		pl.OnB = (j/len(KexNames)/len(f))%2 == 0
		if kx == "ASYMKEX2048" || kx == "ASYMKEX3072" {
			pl.OnB = true // xA is a plain random for ASYMKEX: nothing to validate
		}
	}
	return pl
}

func (p *c14) Shrink(plan any) []any {
	pl := plan.(*C14Plan)
	var out []any
	for b := 0; b < 3; b++ {
		if pl.Restore&(1<<b) != 0 {
			c := *pl
			c.Restore &^= 1 << b
			out = append(out, &c)
		}
	}
	if pl.Msgs > 1 {
		c := *pl
		c.Msgs = 1
		out = append(out, &c)
	}
	return out
}

// --- reference arithmetic, independent of /repo ---

var (
	piOnce sync.Once
	refP14 *big.Int
	refP15 *big.Int
)

// piFloor returns floor(2^bits * pi) using Machin's formula with integers.
func piFloor(bits uint) *big.Int {
	guard := uint(64)
	one := new(big.Int).Lsh(big.NewInt(1), bits+guard)
	arctanInv := func(x int64) *big.Int {
		// arctan(1/x) * 2^(bits+guard)
		sum := new(big.Int)
		term := new(big.Int).Div(one, big.NewInt(x))
		x2 := big.NewInt(x * x)
		n := int64(1)
		sign := 1
		for term.Sign() != 0 {
			t := new(big.Int).Div(term, big.NewInt(n))
			if sign > 0 {
				sum.Add(sum, t)
			} else {
				sum.Sub(sum, t)
			}
			term.Div(term, x2)
			n += 2
			sign = -sign
		}
		return sum
	}
	// pi = 16 arctan(1/5) - 4 arctan(1/239)
	pi := new(big.Int).Mul(arctanInv(5), big.NewInt(16))
	pi.Sub(pi, new(big.Int).Mul(arctanInv(239), big.NewInt(4)))
	return pi.Rsh(pi, guard)
}

// RFC 3526: p = 2^n - 2^(n-64) - 1 + 2^64 * ( floor(2^(n-130) pi) + c )
func modpPrime(n uint, c int64) *big.Int {
	p := new(big.Int).Lsh(big.NewInt(1), n)
	p.Sub(p, new(big.Int).Lsh(big.NewInt(1), n-64))
	p.Sub(p, big.NewInt(1))
	t := piFloor(n - 130)
	t.Add(t, big.NewInt(c))
	t.Lsh(t, 64)
	return p.Add(p, t)
}

func refPrimes() (*big.Int, *big.Int) {
	piOnce.Do(func() {
		refP14 = modpPrime(2048, 124476)
		refP15 = modpPrime(3072, 1690314)
	})
	return refP14, refP15
}

// RefKDF is the harness' own SP 800-108 counter-mode KDF with FDO's label and
// context.
func RefKDF(h func() hash.Hash, shSe, contextRand []byte, bits int) []byte {
	var out []byte
	for i := 1; len(out)*8 < bits; i++ {
		m := hmac.New(h, shSe)
		m.Write([]byte{byte(i)})
		m.Write([]byte("FIDO-KDF"))
		m.Write([]byte{0})
		m.Write([]byte("AutomaticOnboardTunnel"))
		m.Write(contextRand)
		var l [2]byte
		binary.BigEndian.PutUint16(l[:], uint16(bits))
		m.Write(l[:])
		out = m.Sum(out)
	}
	return out[:bits/8]
}

// ecParam splits an FDO ECDH parameter: three 16-bit-length-prefixed strings.
func ecParam(b []byte) (x, y, r []byte, ok bool) {
	var parts [3][]byte
	for i := range parts {
		if len(b) < 2 {
			return nil, nil, nil, false
		}
		n := int(binary.BigEndian.Uint16(b))
		b = b[2:]
		if len(b) < n {
			return nil, nil, nil, false
		}
		parts[i], b = b[:n], b[n:]
	}
	return parts[0], parts[1], parts[2], true
}

func ecParamBuild(x, y, r []byte) []byte {
	var b []byte
	for _, p := range [][]byte{x, y, r} {
		b = binary.BigEndian.AppendUint16(b, uint16(len(p)))
		b = append(b, p...)
	}
	return b
}

func restoreSession(suite kex.Suite, sess kex.Session) (kex.Session, []byte, error) {
	m, ok := sess.(encoding.BinaryMarshaler)
	if !ok {
		return nil, nil, fmt.Errorf("session cannot be marshaled")
	}
	b, err := m.MarshalBinary()
	if err != nil {
		return nil, nil, err
	}
	fresh := suite.New(nil, 1)
	if err := fresh.(encoding.BinaryUnmarshaler).UnmarshalBinary(b); err != nil {
		return nil, b, err
	}
	return fresh, b, nil
}

func sessKeys(s kex.Session) (sek, svk []byte) {
	switch v := s.(type) {
	case *kex.ECDHSession:
		return v.SEK, v.SVK
	case *kex.DHSession:
		return v.SEK, v.SVK
	case *kex.OAEPSession:
		return v.SEK, v.SVK
	}
	return nil, nil
}

func (p *c14) Exec(env *Env, plan any) {
	pl := plan.(*C14Plan)
	o := env.Out
	spec := CipherSpecByName(pl.Cipher)
	suite := kex.Suite(pl.Kex)
	keys, _ := LoadKeys()
	ownerFam := RSA2048
	if pl.Kex == "ASYMKEX3072" || pl.Kex == "DHKEXid15" {
		ownerFam = RSA3072
	}
	ownerKey := keys.Get("owner1", ownerFam).Key.(*rsa.PrivateKey)
	p14, p15 := refPrimes()
	h := sha256.New
	if spec.PRFHash == "sha384" {
		h = sha512.New384
	}
	defer func() { env.Logf("plan=%+v class=%s", *pl, o.Class) }()
	viol := func(oracle, key, f string, a ...any) {
		o.Violate("C14", oracle, key, "%s/%s restore=%03b fault=%s: %s", pl.Kex, pl.Cipher, pl.Restore, pl.Fault, fmt.Sprintf(f, a...))
	}

	type sessionResult struct {
		sek, svk []byte
		ivs      [][]byte
		ok       bool
	}
	runSession := func(tag string, fault string) (res sessionResult) {
		owner := suite.New(nil, spec.ID)
		xA, err := owner.Parameter(rand.Reader, &ownerKey.PublicKey)
		if err != nil {
			viol("honest-exchange", "owner-parameter", "owner Parameter: %v", err)
			return
		}
		var persistedAfterParam []byte
		if pl.Restore&1 != 0 {
			o.Fault("restore:after-parameter")
		}
		{
			// the persisted form right after Parameter is what the harness
			// recomputes the secret from (and, when bit 0 is set, what the owner
			// continues from)
			fresh, b, err := restoreSession(suite, owner)
			if err != nil {
				viol("persistence", "after-parameter", "serialise/restore after Parameter: %v", err)
				return
			}
			persistedAfterParam = b
			if pl.Restore&1 != 0 {
				owner = fresh
			}
		}
		if (pl.Kex == "DHKEXid14" && len(xA) < 256) || (pl.Kex == "DHKEXid15" && len(xA) < 384) {
			o.Probe("dh-public-value-with-leading-zero-byte")
		}
		if ex, ey, _, ok := ecParam(xA); ok && (pl.Kex == "ECDH256" || pl.Kex == "ECDH384") && (ex[0] == 0 || ey[0] == 0) {
			o.Probe("ecdh-coordinate-with-leading-zero-byte")
		}
		xAwire := xA
		var mustReject bool
		if fault != "none" && !pl.OnB {
			xAwire, mustReject = c14Alter(fault, xA, pl.Kex, p14, p15)
			o.Fault("param:" + fault)
		}
		// the device clones the received parameter: an empty one stays non-nil
		device := suite.New(append([]byte{}, xAwire...), spec.ID)
		var xB []byte
		var derr error
		_, panicked := safely(func() { xB, derr = device.Parameter(rand.Reader, &ownerKey.PublicKey) })
		if panicked != "" {
			viol("panic", "device-parameter|"+fault, "device Parameter panicked: %s", panicked)
			return
		}
		if fault != "none" && !pl.OnB {
			dsek, _ := sessKeys(device)
			if derr == nil && mustReject && len(dsek) > 0 {
				viol("degenerate-parameter-accepted", "xA|"+fault, "device derived a key (%d bytes) from an invalid xA", len(dsek))
			}
			if derr != nil || (mustReject && len(dsek) == 0) {
				o.Class = "param-rejected"
				return
			}
			o.Class = "param-tolerated"
			return
		}
		if derr != nil {
			viol("honest-exchange", "device-parameter", "device Parameter: %v", derr)
			return
		}
		xBwire := xB
		if fault != "none" && pl.OnB {
			xBwire, mustReject = c14Alter(fault, xB, pl.Kex, p14, p15)
			o.Fault("param:" + fault)
		}
		var serr error
		_, panicked = safely(func() { serr = owner.SetParameter(append([]byte(nil), xBwire...), ownerKey) })
		if panicked != "" {
			viol("panic", "owner-setparameter|"+fault, "owner SetParameter panicked: %s", panicked)
			return
		}
		if fault != "none" && pl.OnB {
			osek, _ := sessKeys(owner)
			if serr == nil && mustReject && len(osek) > 0 {
				viol("degenerate-parameter-accepted", "xB|"+fault, "owner derived a key (%d bytes) from an invalid xB", len(osek))
			}
			if serr != nil {
				if len(osek) != 0 {
					viol("degenerate-parameter-accepted", "xB-key-after-error|"+fault, "SetParameter failed but left a %d-byte key in the session", len(osek))
				}
				o.Class = "param-rejected"
				return
			}
			o.Class = "param-tolerated"
			return
		}
		if serr != nil {
			viol("honest-exchange", "owner-setparameter", "owner SetParameter: %v", serr)
			return
		}
		if pl.Restore&2 != 0 {
			fresh, _, err := restoreSession(suite, owner)
			if err != nil {
				viol("persistence", "after-setparameter", "serialise/restore after SetParameter: %v", err)
				return
			}
			owner = fresh
			o.Fault("restore:after-setparameter")
		}
		osek, osvk := sessKeys(owner)
		dsek, dsvk := sessKeys(device)
		if !bytes.Equal(osek, dsek) || !bytes.Equal(osvk, dsvk) {
			viol("keys-differ", tag, "owner SEK/SVK %x/%x, device %x/%x", head(osek, 8), head(osvk, 8), head(dsek, 8), head(dsvk, 8))
			return
		}
		// SEK: exactly the AES key size the suite name states. SVK: present
		// (>= 128 bits) exactly for the encrypt-then-MAC suites. The exact SVK
		// size is not asserted: the FDO table was not available offline and the
		// harness must not copy the implementation's constant (see assumptions).
		if len(osek) != spec.KeyLen || (spec.AEAD && len(osvk) != 0) || (!spec.AEAD && len(osvk) < 16) {
			viol("key-length", pl.Cipher, "SEK %d bytes, SVK %d bytes; cipher %s needs a %d-byte SEK and %s", len(osek), len(osvk), spec.Name, spec.KeyLen, map[bool]string{true: "no SVK", false: "an SVK of at least 16 bytes"}[spec.AEAD])
		}
		if !spec.AEAD {
			o.Probe(fmt.Sprintf("svk-bytes:%s=%d", spec.Name, len(osvk)))
		}
		// independent derivation from the persisted private state
		want, werr := c14Reference(pl.Kex, persistedAfterParam, xA, xB, ownerKey, p14, p15, h, (len(osek)+len(osvk))*8)
		if werr != nil {
			viol("reference", "recompute", "could not recompute the secret from the persisted session: %v", werr)
		} else if !bytes.Equal(want, append(append([]byte(nil), osek...), osvk...)) {
			viol("kdf-mismatch", pl.Kex+"|"+spec.PRFHash, "derived keys %x… differ from the reference derivation %x…", head(osek, 12), head(want, 12))
		}
		// traffic in both directions, with the owner reloaded between operations
		for i := 0; i < pl.Msgs; i++ {
			payload := []any{i, bytes.Repeat([]byte{byte(i)}, 10+i*37), "service-info"}
			plain, _ := cbor.Marshal(payload)
			from, to := kex.Session(device), &owner
			if i%2 == 1 {
				from, to = owner, nil
			}
			if pl.Restore&4 != 0 {
				fresh, _, err := restoreSession(suite, owner)
				if err != nil {
					viol("persistence", "between-messages", "serialise/restore between messages: %v", err)
					return
				}
				owner = fresh
				if i%2 == 1 {
					from = owner
				}
				if i == 0 {
					o.Fault("restore:between-messages")
				}
			}
			enc, err := from.Encrypt(rand.Reader, payload)
			if err != nil {
				viol("traffic", "encrypt", "message %d: Encrypt: %v", i, err)
				return
			}
			wire, _ := cbor.Marshal(enc)
			if f, err := ParseTunnelFrame(wire); err == nil {
				res.ivs = append(res.ivs, f.IV)
			}
			var got []byte
			if to != nil {
				got, err = (*to).Decrypt(rand.Reader, bytes.NewReader(wire))
			} else {
				got, err = device.Decrypt(rand.Reader, bytes.NewReader(wire))
			}
			if err != nil || !bytes.Equal(got, plain) {
				viol("traffic", "decrypt", "message %d (%s): peer could not recover the plaintext after restore mask %03b: %v", i, map[bool]string{true: "owner->device", false: "device->owner"}[i%2 == 1], pl.Restore, err)
				return
			}
		}
		res.sek, res.svk, res.ok = osek, osvk, true
		return
	}

	if pl.Fault != "none" {
		runSession("faulted", pl.Fault)
		o.Nontrivial = true
		o.Sample = map[string]any{"fault": pl.Fault, "on_xB": pl.OnB, "class": o.Class}
		return
	}
	a := runSession("first", "none")
	b := runSession("second", "none")
	if !a.ok || !b.ok {
		if o.Class == "" {
			o.Class = "FAILED"
		}
		return
	}
	if bytes.Equal(a.sek, b.sek) {
		viol("keys-not-fresh", pl.Kex, "two independent sessions derived the same SEK")
	}
	seen := map[string]bool{}
	for _, iv := range append(a.ivs, b.ivs...) {
		if seen[string(iv)] {
			viol("iv-reuse", pl.Cipher, "IV %x used twice", iv)
		}
		seen[string(iv)] = true
	}
	o.Class = "ok"
	o.Nontrivial = pl.Restore != 0
	o.Sample = map[string]any{"restore_mask": pl.Restore, "msgs": pl.Msgs, "sek_len": len(a.sek), "svk_len": len(a.svk)}
}

func safely(f func()) (struct{}, string) {
	var p string
	func() {
		defer func() {
			if r := recover(); r != nil {
				p = fmt.Sprint(r)
			}
		}()
		f()
	}()
	return struct{}{}, p
}

// c14Alter applies a parameter fault; mustReject reports whether the result
// is degenerate / out of range by the specification.
func c14Alter(fault string, x []byte, kx string, p14, p15 *big.Int) ([]byte, bool) {
	p := p14
	if kx == "DHKEXid15" {
		p = p15
	}
	big1 := big.NewInt(1)
	switch fault {
	case "dh:empty":
		return []byte{}, true
	case "dh:0":
		return []byte{0}, true
	case "dh:1":
		return []byte{1}, true
	case "dh:2":
		return []byte{2}, false
	case "dh:p-2":
		return new(big.Int).Sub(p, big.NewInt(2)).Bytes(), false
	case "dh:p-1":
		return new(big.Int).Sub(p, big1).Bytes(), true
	case "dh:p":
		return p.Bytes(), true
	case "dh:p+1":
		return new(big.Int).Add(p, big1).Bytes(), true
	case "dh:2p":
		return new(big.Int).Lsh(p, 1).Bytes(), true
	}
	ex, ey, er, ok := ecParam(x)
	if ok {
		switch fault {
		case "ec:short-x":
			return ecParamBuild(ex[:len(ex)-1], ey, er), true
		case "ec:long-x":
			return ecParamBuild(append([]byte{1}, ex...), ey, er), true
		case "ec:flip-y":
			y := append([]byte(nil), ey...)
			y[len(y)-1] ^= 1
			return ecParamBuild(ex, y, er), true
		case "ec:swap-xy":
			return ecParamBuild(ey, ex, er), true
		case "ec:truncate":
			return x[:len(x)/2], true
		case "ec:identity":
			return ecParamBuild(make([]byte, len(ex)), make([]byte, len(ey)), er), true
		case "ec:empty-rand":
			return ecParamBuild(ex, ey, nil), false
		case "ec:other-curve":
			// a valid point of the other NIST curve
			c := ecdh.P384()
			if len(ex) == 48 {
				c = ecdh.P256()
			}
			k, _ := c.GenerateKey(rand.Reader)
			pb := k.PublicKey().Bytes()
			n := (len(pb) - 1) / 2
			return ecParamBuild(pb[1:1+n], pb[1+n:], er), true
		case "ec:empty":
			return []byte{}, true
		}
	}
	switch fault {
	case "oaep:short":
		return x[:len(x)-1], true
	case "oaep:long":
		return append(append([]byte(nil), x...), 0), true
	case "oaep:flip":
		y := append([]byte(nil), x...)
		y[len(y)/2] ^= 0x10
		return y, true
	case "oaep:empty":
		return []byte{}, true
	}
	return x, false
}

// c14Reference derives SEK||SVK independently from the owner's persisted
// private state and the two parameters.
func c14Reference(kx string, persisted, xA, xB []byte, ownerKey *rsa.PrivateKey, p14, p15 *big.Int, h func() hash.Hash, bits int) ([]byte, error) {
	st, err := ParseCBOR(persisted)
	if err != nil || st.Major != 4 {
		return nil, fmt.Errorf("persisted session is not a CBOR array: %v", err)
	}
	switch kx {
	case "ECDH256", "ECDH384":
		// [RandSize, ParamA, ParamB, Key, Cipher, SEK, SVK]
		if len(st.Kids) < 4 {
			return nil, fmt.Errorf("short ECDH state")
		}
		curve := ecdh.P256()
		if kx == "ECDH384" {
			curve = ecdh.P384()
		}
		priv, err := curve.NewPrivateKey(st.Kids[3].Bytes)
		if err != nil {
			return nil, fmt.Errorf("persisted scalar: %w", err)
		}
		_, _, ra, ok := ecParam(xA)
		bx, by, rb, ok2 := ecParam(xB)
		if !ok || !ok2 {
			return nil, fmt.Errorf("parameter format")
		}
		pub, err := curve.NewPublicKey(append(append([]byte{4}, bx...), by...))
		if err != nil {
			return nil, err
		}
		shx, err := priv.ECDH(pub)
		if err != nil {
			return nil, err
		}
		shSe := append(append(shx, rb...), ra...)
		return RefKDF(h, shSe, nil, bits), nil
	case "DHKEXid14", "DHKEXid15":
		// [Prime, Generator, ParamSize, ParamA, ParamXA, ParamB, ParamXB, Cipher, SEK, SVK]
		if len(st.Kids) < 4 {
			return nil, fmt.Errorf("short DH state")
		}
		p := p14
		if kx == "DHKEXid15" {
			p = p15
		}
		if new(big.Int).SetBytes(st.Kids[0].Bytes).Cmp(p) != 0 {
			return nil, fmt.Errorf("persisted prime is not the RFC 3526 group prime")
		}
		if g, _ := st.Kids[1].Int(); g != 2 {
			return nil, fmt.Errorf("generator %d", g)
		}
		a := new(big.Int).SetBytes(st.Kids[3].Bytes)
		// the owner's public value must be g^a
		if new(big.Int).Exp(big.NewInt(2), a, p).Cmp(new(big.Int).SetBytes(xA)) != 0 {
			return nil, fmt.Errorf("xA is not g^a for the persisted a")
		}
		s := new(big.Int).Exp(new(big.Int).SetBytes(xB), a, p)
		shSe := s.FillBytes(make([]byte, (p.BitLen()+7)/8))
		return RefKDF(h, shSe, nil, bits), nil
	default:
		devRand, err := rsa.DecryptOAEP(sha256.New(), nil, ownerKey, xB, nil)
		if err != nil {
			return nil, err
		}
		return RefKDF(h, devRand, xA, bits), nil
	}
}
