package fdosim

import (
	"bytes"
	"context"
	"crypto"
	"fmt"
	"io"
	mrand "math/rand/v2"
	"strings"
	"sync"
	"time"

	"github.com/fido-device-onboard/go-fdo/cbor"
	"github.com/fido-device-onboard/go-fdo/kex"
	"github.com/fido-device-onboard/go-fdo/protocol"
	"github.com/fido-device-onboard/go-fdo/serviceinfo"
)

// C19 — concurrent onboardings through one server are isolated and
// race-free. N devices run DI, TO0, TO1, TO2 as kernel tasks against one
// handler, one set of responders and one store; the binary is built with
// -race (the kernel's own hand-offs are hidden from the detector).

type C19Plan struct {
	Seed    uint64      `json:"seed"`
	N       int         `json:"n"`
	Sql     bool        `json:"sql"`
	Sched   SchedPolicy `json:"sched"`
	Delays  bool        `json:"delays"` // PRNG-chosen virtual delays at transport and module callbacks
	Payload int         `json:"payload"`
	DevMTU  int         `json:"dev_mtu"`
	// CancelAfter > 0: the context of device 1's TO2 is cancelled that many
	// scheduler steps after its TO2 began (a timeout or shutdown at an arbitrary
	// instant). The call must return; the other devices are unaffected.
	CancelAfter int `json:"cancel_after,omitempty"`
	// CancelSite: instead, cancel exactly when a task is about to continue from
	// the CancelAfter-th yield site whose name starts with this prefix.
	CancelSite string `json:"cancel_site,omitempty"`
	// FirstReqGone: the very first request this server instance ever handles
	// (device 1's DI.AppStart) arrives with an already cancelled context. That
	// device fails; nobody else may be affected.
	FirstReqGone bool `json:"first_req_gone,omitempty"`
}

type c19 struct{ noPrepare }

func init() { Register(&c19{}) }

func (p *c19) ID() string    { return "C19" }
func (p *c19) Level() string { return "exploration" }
func (p *c19) NewPlan() any  { return &C19Plan{} }
func (p *c19) Rule() string {
	return "N in 2..16 (quick) / 2..64 (thorough) devices with mixed key types, key exchanges and ciphers run DI, voucher extension, TO0, TO1 and TO2 (with a per-device ping module whose payload is derived from the device identity) concurrently as tasks of the seeded scheduler against ONE node hosting all responders over one store (simstore or sqlite); interleaving at every network event, state-backend method, SQL statement of the sqlite backend (through its statement-log seam), module callback and verif hook of the device pipeline, plus PRNG-chosen virtual delays; in a quarter of the runs the context of device 1's TO2 is cancelled after a seeded number of scheduler steps or exactly at the n-th yield site of a chosen class of the device pipeline; binary built with the Go race detector; oracle: every device succeeds as it does alone (solo baseline of device 0 in a fresh world), its stored replacement voucher agrees with its credential (independent recomputation), module payloads received on either side are its own, no response delivered to a device contains another device's GUID, no deadlock (kernel verdict or all goroutines of the bubble blocked for good), a cancelled call returns, zero race reports whose two accesses are both in go-fdo; non-trivial = at least two tasks were runnable at some step; distinct = distinct (schedule, N, backend, outcome)"
}
func (p *c19) DeadlockIsViolation() bool { return true }
func (p *c19) Exhaustive(string) bool    { return false }
func (p *c19) Components() map[string][]string {
	return map[string][]string{
		"real": {"one shared http.Handler and DI/TO0/TO1/TO2 responders", "fdo client roles (one per device task)", "device TO2 pipeline goroutines", "sqlite.DB + database/sql (sql plans)", "cose/kex/cbor registries", "Go race detector"},
		"stub": {"kernel scheduler (hand-offs hidden from the race detector)", "simstore behind its own mutex (non-sql plans)", "network with virtual delays", "ping modules with per-device payloads", "clock", "crypto randomness (lock-free seeded stream)"},
	}
}
func (p *c19) Assumptions() []string {
	return []string{
		"the in-memory backend serialises its methods with one mutex and thereby adds happens-before edges between sessions at every state access, as any in-memory production backend would; sqlite plans add only database/sql's own synchronisation",
		"a race report counts only if both racing accesses are made by go-fdo code (or the standard library called from it); a report in which the harness makes one of the accesses, with no library-only pair in the same run, is a harness defect (exit 2)",
		"runs with a cancellation reach selects with several ready cases, which the Go runtime resolves with its own random source: their event log is not compared between executions, only their verdict",
		"between two yields a task runs alone, plus the first instructions of goroutines it wakes up",
	}
}

func (p *c19) NumPlans(tier string) int {
	if tier == "thorough" {
		return 3000
	}
	return 160
}

func (p *c19) Plan(tier string, seed uint64, i int) any {
	r := mrand.New(mrand.NewPCG(seed*389+3, uint64(i)))
	maxN := 16
	if tier == "thorough" {
		maxN = 64
	}
	n := 2 + r.IntN(7)
	if i%5 == 4 {
		n = 2 + r.IntN(maxN-1)
	}
	pl := &C19Plan{Seed: seed*1_000_003 + uint64(i), N: n, Sql: i%4 == 3, Sched: []SchedPolicy{SchedRandom, SchedPCT}[i%2], Delays: i%3 != 0,
		Payload: 1 + r.IntN(3000), DevMTU: []int{0, 256, 1300, 4000}[r.IntN(4)]}
	if i%8 == 7 {
		pl.FirstReqGone = true // an sql plan (i%4 == 3)
	}
	if i%4 == 1 {
		pl.CancelAfter = 1 + r.IntN(60*n)
		pl.N = min(pl.N, 4)
		if i%8 == 1 {
			// at exact program points of the device pipeline
			pl.CancelSite = c19CancelSites[(i/8)%len(c19CancelSites)]
			pl.CancelAfter = 1 + r.IntN(12)
			pl.N = 2
		}
	}
	return pl
}

func (p *c19) Shrink(plan any) []any {
	pl := plan.(*C19Plan)
	var out []any
	if pl.N > 2 {
		for _, n := range []int{2, pl.N / 2, pl.N - 1} {
			if n >= 2 && n < pl.N {
				c := *pl
				c.N = n
				out = append(out, &c)
			}
		}
	}
	if pl.Delays {
		c := *pl
		c.Delays = false
		out = append(out, &c)
	}
	if pl.CancelAfter > 1 {
		for _, v := range []int{pl.CancelAfter - 1, pl.CancelAfter / 2} {
			c := *pl
			c.CancelAfter = v
			out = append(out, &c)
		}
	}
	if pl.Sql {
		c := *pl
		c.Sql = false
		out = append(out, &c)
	}
	return out
}

// c19Owner sends a payload derived from the session's voucher GUID and expects
// the device to echo it with its own name appended.
type c19Owner struct {
	mu     sync.Mutex
	guid   protocol.GUID
	size   int
	state  int
	acc    []byte
	echoed []byte
	errs   *[]string
	errMu  *sync.Mutex
	idle   int
}

func c19Payload(guid protocol.GUID, size int) []byte {
	b := make([]byte, size)
	for i := range b {
		b[i] = guid[i%16] ^ byte(i*7)
	}
	return b
}

func (m *c19Owner) HandleInfo(ctx context.Context, name string, body io.Reader) error {
	b, err := io.ReadAll(body)
	if err != nil {
		return err
	}
	switch name {
	case "active":
		var a bool
		return cbor.Unmarshal(b, &a)
	case "pong":
		m.acc = append(m.acc, b...)
		var v []byte
		if cbor.Unmarshal(m.acc, &v) == nil {
			m.echoed = v
			m.acc = nil
		}
		return nil
	}
	return fmt.Errorf("unexpected %s", name)
}

func (m *c19Owner) ProduceInfo(ctx context.Context, pr *serviceinfo.Producer) (bool, bool, error) {
	switch m.state {
	case 0:
		m.state = 1
		b, _ := cbor.Marshal(true)
		return false, false, pr.WriteChunk("active", b)
	case 1:
		b, _ := cbor.Marshal(c19Payload(m.guid, m.size))
		// chunk to the MTU
		for len(b) > 0 {
			a := pr.Available("ping")
			if a <= 0 {
				return true, false, nil
			}
			n := min(a, len(b))
			if err := pr.WriteChunk("ping", b[:n]); err != nil {
				return false, false, err
			}
			b = b[n:]
			if len(b) > 0 {
				// simplification: the payload is small enough for a few messages;
				// remember the rest
				m.acc = nil
				m.state = 10
				m.echoed = b // reuse as pending buffer
				return true, false, nil
			}
		}
		m.state = 2
		return false, false, nil
	case 10:
		b := m.echoed
		for len(b) > 0 {
			a := pr.Available("ping")
			if a <= 0 {
				m.echoed = b
				return true, false, nil
			}
			n := min(a, len(b))
			if err := pr.WriteChunk("ping", b[:n]); err != nil {
				return false, false, err
			}
			b = b[n:]
			if len(b) > 0 {
				m.echoed = b
				return true, false, nil
			}
		}
		m.echoed = nil
		m.state = 2
		return false, false, nil
	default:
		if m.echoed == nil {
			if m.idle++; m.idle > 30 {
				return false, false, fmt.Errorf("device never echoed")
			}
			return false, false, nil
		}
		want := c19Payload(m.guid, m.size)
		if !bytes.Equal(m.echoed, want) {
			m.errMu.Lock()
			*m.errs = append(*m.errs, fmt.Sprintf("owner session for %x received an echo that is not its own payload", m.guid[:4]))
			m.errMu.Unlock()
		}
		return false, true, nil
	}
}

type c19Device struct {
	k      *Kernel
	guid   protocol.GUID
	size   int
	delays bool
	r      *mrand.Rand
	bad    string
	got    bool
}

func (d *c19Device) Transition(bool) error { return nil }
func (d *c19Device) Receive(ctx context.Context, name string, body io.Reader, respond func(string) io.Writer, yield func()) error {
	if d.delays {
		d.k.Sleep(time.Duration(d.r.IntN(50))*time.Millisecond, "mod.delay")
	} else {
		d.k.Yield("mod.receive")
	}
	var v []byte
	if err := cbor.NewDecoder(body).Decode(&v); err != nil {
		return err
	}
	d.got = true
	if !bytes.Equal(v, c19Payload(d.guid, d.size)) {
		d.bad = "device module received a payload that is not derived from its own GUID"
	}
	w := respond("pong")
	enc, _ := cbor.Marshal(v)
	h := len(enc) / 3
	if _, err := w.Write(enc[:h]); err != nil {
		return err
	}
	d.k.Yield("mod.midwrite")
	_, err := w.Write(enc[h:])
	return err
}
func (d *c19Device) Yield(context.Context, func(string) io.Writer, func()) error { return nil }

var c19CancelSites = []string{"to2.moduleHandler.wait", "to2.moduleHandler.start", "to2.moduleHandler.joined", "Close.", "nextPipe.", "bufPipe.Read", "bufPipe.Write", "bufPipe.Close", "mod.", "ChunkReader.", "ChunkWriter.", "UnchunkReader."}

var c19Cfgs = []struct {
	Key    string
	Enc    uint8
	Kex    string
	Cipher string
}{
	{"P-256", 1, "ECDH256", "A128GCM"}, {"P-384", 2, "ECDH384", "A256GCM"}, {"RSA2048RESTR", 1, "DHKEXid14", "COSEAES128CTR"},
	{"P-256", 3, "ECDH256", "COSEAES256CBC"}, {"RSA-PSS-2048", 2, "ASYMKEX2048", "A192GCM"}, {"P-384", 1, "ECDH384", "COSEAES128CBC"},
	{"RSA2048RESTR", 2, "ECDH256", "A128GCM"},
}

type c19Result struct {
	ok    bool
	err   string
	guid0 protocol.GUID
	dev   *Device
	bad   string
	got   bool
}

func c19World(pl *C19Plan, n int, seedSalt uint64) (results []c19Result, k *Kernel, s *World, modErrs []string, cleanup func()) {
	ctx := context.Background()
	cancelAfter := pl.CancelAfter
	if seedSalt != 0 {
		cancelAfter = 0 // the solo baseline runs to completion
	}
	k = NewKernel(pl.Seed+seedSalt, pl.Sched, 3000000)
	w := NewWorld(k)
	var node *Node
	cleanup = func() {}
	if pl.Sql {
		var err error
		node, cleanup, err = w.AddSqlNode("aio", "mfg", "owner1")
		if err != nil {
			panic(err)
		}
	} else {
		node = w.AddSimNode("aio", "mfg", "owner1")
	}
	node.MfgBits = 2048
	if pl.Sql && node.Sql != nil {
		// the backend's statement log is a seam: every SQL statement becomes a
		// scheduling point, so that sessions interleave inside state methods
		// (between the statements of one method), not only between them
		node.Sql.DB.DebugLog = writerFunc(func(p []byte) (int, error) {
			k.Yield("sql.stmt")
			return len(p), nil
		})
	}
	if RaceBuild {
		w.Net.NoLog = true
	}
	var errMu sync.Mutex
	node.Mods = &ModSM{Factory: func(ctx context.Context, token string) []NamedModule {
		g, _ := node.Store.GUID(ctx)
		return []NamedModule{{Name: "ping", Mod: &c19Owner{guid: g, size: pl.Payload, errs: &modErrs, errMu: &errMu}}}
	}}
	node.Handler() // built before the tasks start
	if pl.Delays {
		delayR := mrand.New(mrand.NewPCG(pl.Seed, 0xde1a))
		var dmu sync.Mutex
		w.Net.AddHook(func(ev *NetEvent) {
			dmu.Lock()
			d := time.Duration(delayR.IntN(200)) * time.Millisecond
			dmu.Unlock()
			if d > 0 {
				k.Sleep(d, "net.delay")
			}
		})
	}
	if pl.FirstReqGone && seedSalt == 0 {
		// device 1 sends DI.AppStart exactly once; the other devices start ten
		// virtual minutes later, so this is the first request the server handles
		// (no shared variable: tasks must not synchronise through the harness)
		w.Net.AddHook(func(ev *NetEvent) {
			if ev.Phase == "req" && ev.From == "dev1" && ev.MsgType == 10 {
				ev.CancelBefore = true
			}
		})
	}
	results = make([]c19Result, n)
	// the context of device 1's TO2 and, for site-triggered cancellation, the
	// scheduler callback are set up before any task runs (the callback is
	// executed by the scheduler itself, whose hand-offs the race detector does
	// not see)
	dev1Ctx, dev1Cancel := context.WithCancel(ctx)
	defer dev1Cancel()
	if cancelAfter > 0 && pl.CancelSite != "" {
		seen := 0
		k.OnRelease = func(task, site string) {
			if strings.HasPrefix(site, pl.CancelSite) {
				if seen++; seen == cancelAfter {
					dev1Cancel()
				}
			}
		}
	}
	var wg sync.WaitGroup
	for i := 0; i < n; i++ {
		i := i
		c := c19Cfgs[i%len(c19Cfgs)]
		cfg := keyCfgByName(c.Key, c.Enc)
		name := fmt.Sprintf("dev%d", i+1)
		role := fmt.Sprintf("dev%d", i%4+1)
		wg.Add(1)
		k.Go(name, func() {
			defer wg.Done()
			res := &results[i]
			if pl.FirstReqGone && seedSalt == 0 && i > 0 {
				k.Sleep(10*time.Minute, "wait.first")
			}
			dev := w.NewDevice(name, role, cfg)
			res.dev = dev
			if err := w.DI(ctx, dev, "aio"); err != nil {
				res.err = "DI: " + err.Error()
				return
			}
			res.guid0 = dev.Cred.GUID
			if _, err := w.ExtendTo(ctx, "aio", dev.Cred.GUID, cfg, "mfg", "owner1", "aio"); err != nil {
				res.err = "extend: " + err.Error()
				return
			}
			if _, err := w.TO0(ctx, "aio", "aio", dev.Cred.GUID, 3600); err != nil {
				res.err = "TO0: " + err.Error()
				return
			}
			to1d, err := w.TO1(ctx, dev, "aio")
			if err != nil {
				res.err = "TO1: " + err.Error()
				return
			}
			dm := &c19Device{k: k, guid: dev.Cred.GUID, size: pl.Payload, delays: pl.Delays, r: mrand.New(mrand.NewPCG(pl.Seed, uint64(i)))}
			ctx := ctx
			if i == 0 && cancelAfter > 0 {
				ctx = dev1Ctx
				if pl.CancelSite == "" {
					start := k.StepCount()
					k.Go("canceller", func() {
						for k.StepCount() < start+cancelAfter {
							if k.Yield("cancel.wait") == 0 {
								break
							}
						}
						dev1Cancel()
					})
				}
			}
			_, err = w.TO2(ctx, dev, "aio", to1d, TO2Opts{Kex: kex.Suite(c.Kex), Cipher: CipherSpecByName(c.Cipher).ID, MTU: uint16(pl.DevMTU),
				Modules: map[string]serviceinfo.DeviceModule{"ping": dm}})
			res.bad, res.got = dm.bad, dm.got
			if err != nil {
				res.err = "TO2: " + err.Error()
				return
			}
			res.ok = true
		})
	}
	k.Run()
	if !k.Deadlock {
		wg.Wait()
	}
	return results, k, w, modErrs, cleanup
}

func (p *c19) Exec(env *Env, plan any) {
	pl := plan.(*C19Plan)
	o := env.Out
	defer InstallHooks(nil)
	results, k, w, modErrs, cleanup := c19World(pl, pl.N, 0)
	cleaned := false
	defer func() {
		if !cleaned {
			cleanup()
		}
	}()
	o.Steps, o.MultiSteps = k.Steps, k.MultiSteps
	o.Sched = fmt.Sprintf("%s:%016x", pl.Sched, k.TraceHash())
	o.Nontrivial = k.MultiSteps > 0
	o.SimTimeS = time.Since(env.Start).Seconds()
	env.Logf("plan n=%d sql=%v sched=%s delays=%v steps=%d maxRunnable=%d sqlStmtYields=%d", pl.N, pl.Sql, o.Sched, pl.Delays, k.Steps, k.MaxRunnable, k.Sites()["sql.stmt"])
	if pl.CancelAfter > 0 {
		// cancellation makes selects in the library ready on several cases at
		// once; the Go runtime then chooses by its own random source
		o.Unstable = true
	}
	if k.Deadlock {
		// tasks are blocked for good; their results are not read
		o.Class = "DEADLOCK"
		o.Violate("C19", "deadlock", fmt.Sprintf("sql=%v cancel=%q", pl.Sql, pl.CancelSite), "the simulated system deadlocked (N=%d, cancel after %d at %q): a task never returned", pl.N, pl.CancelAfter, pl.CancelSite)
		return
	}
	if dbgLog {
		for i, tr := range k.Trace {
			if i < 90 {
				env.Logf("trace %d %s", i, tr)
			}
		}
	}
	for i, r := range results {
		env.Logf("dev%d ok=%v err=%s", i+1, r.ok, r.err)
	}
	for _, pr := range w.Net.Panics {
		o.Violate("C19", "panic", pr.Frame, "panic in %s under concurrency: %s", pr.Where, pr.Value)
	}
	if k.Deadlock || o.Deadlock {
		o.Class = "DEADLOCK"
		o.Violate("C19", "deadlock", fmt.Sprintf("sql=%v", pl.Sql), "concurrent onboardings deadlocked (N=%d)", pl.N)
		return
	}
	if k.Exhausted {
		o.Class = "BUDGET"
		o.Violate("C19", "no-termination", "steps", "did not finish within %d kernel steps (N=%d)", k.MaxSteps, pl.N)
		return
	}
	node := w.Nodes["aio"]
	fails := 0
	goneSeen := 0
	for i, r := range results {
		if !r.ok && pl.FirstReqGone && strings.HasPrefix(r.err, "DI:") && goneSeen == 0 {
			// the one device whose first request was cancelled
			goneSeen++
			o.Fault("first-request-gone")
			continue
		}
		if !r.ok && i == 0 && pl.CancelAfter > 0 && strings.HasPrefix(r.err, "TO2:") {
			// the cancelled call returned with an error: that is its contract
			o.Fault("context-cancelled")
			continue
		}
		if !r.ok {
			fails++
			o.Class = "DEVICE-FAILED"
			o.Violate("C19", "outcome-differs-from-solo", c16ErrClass(fmt.Errorf("%s", r.err)), "device %d of %d failed under concurrency (sql=%v): %s", i+1, pl.N, pl.Sql, r.err)
			continue
		}
		if r.bad != "" || !r.got {
			o.Class = "CROSS-TALK"
			o.Violate("C19", "module-data-crosstalk", "device", "device %d: %s (received=%v)", i+1, r.bad, r.got)
		}
		// the stored replacement voucher belongs to this device and agrees with its credential
		var vb []byte
		var ok bool
		if node.Sim != nil {
			vb, ok = node.Sim.VoucherBytes(r.dev.Cred.GUID)
		} else {
			var c []byte
			if err := node.Sql.DB.DB().QueryRow("SELECT cbor FROM vouchers WHERE guid = ?", r.dev.Cred.GUID[:]).Scan(&c); err == nil {
				vb, ok = c, true
			}
		}
		if !ok {
			o.Class = "VOUCHER-MISSING"
			o.Violate("C19", "session-isolation", "voucher-missing", "device %d: no replacement voucher under its new GUID", i+1)
		} else if bad := c03Agreement(vb, r.dev); len(bad) > 0 {
			o.Class = "VOUCHER-MIXED"
			o.Violate("C19", "session-isolation", "agreement", "device %d: stored replacement voucher does not agree with its credential (data of another session?): %v", i+1, bad)
		}
	}
	for _, e := range modErrs {
		o.Class = "CROSS-TALK"
		o.Violate("C19", "module-data-crosstalk", "owner", "%s", e)
	}
	// GUIDs are pairwise distinct, and no clear-text response delivered to a
	// device carries another device's GUID
	seen := map[protocol.GUID]int{}
	for i, r := range results {
		if !r.ok {
			continue
		}
		for _, g := range []protocol.GUID{r.guid0, r.dev.Cred.GUID} {
			if j, dup := seen[g]; dup {
				o.Violate("C19", "session-isolation", "guid-collision", "devices %d and %d share GUID %x", j+1, i+1, g[:4])
			}
			seen[g] = i
		}
	}
	for _, ev := range w.Net.Log {
		if ev.Phase != "resp" || ev.RespType >= 65 || ev.RespType == 255 {
			continue
		}
		for i, r := range results {
			if r.dev == nil || ev.To == r.dev.Name {
				continue
			}
			if r.ok && (bytes.Contains(ev.Body, r.guid0[:]) || bytes.Contains(ev.Body, r.dev.Cred.GUID[:])) {
				o.Class = "LEAK"
				o.Violate("C19", "session-isolation", "guid-leak", "response type %d delivered to %s contains a GUID of device %d", ev.RespType, ev.To, i+1)
			}
		}
	}
	if fails == 0 && o.Class == "" {
		o.Class = fmt.Sprintf("all-ok:n=%d", min(pl.N, 9))
	}
	// solo baseline: device 1 alone in a fresh world obtains the same outcome
	cleanup() // the baseline world reuses the node name and hence the database file
	cleaned = true
	solo, _, _, _, cleanup2 := c19World(pl, 1, 7777)
	defer cleanup2()
	if solo[0].ok != results[0].ok && pl.CancelAfter == 0 && !pl.FirstReqGone {
		o.Violate("C19", "outcome-differs-from-solo", "baseline", "device 1 alone: ok=%v (%s); among %d devices: ok=%v (%s)", solo[0].ok, solo[0].err, pl.N, results[0].ok, results[0].err)
	}
	o.Sample = map[string]any{"n": pl.N, "sql": pl.Sql, "steps": k.Steps, "max_runnable": k.MaxRunnable, "race_build": RaceBuild}
	_ = crypto.SHA256
}
