package fdosim

import (
	"bytes"
	"context"
	"crypto"
	"crypto/x509"
	"fmt"
	"strings"
	"testing"
	"testing/synctest"

	fdo "github.com/fido-device-onboard/go-fdo"
	"github.com/fido-device-onboard/go-fdo/cbor"
	"github.com/fido-device-onboard/go-fdo/cose"
	"github.com/fido-device-onboard/go-fdo/protocol"
)

// C04 — ownership vouchers verify iff untampered; only the current owner can
// extend. Vouchers come from real multi-party histories (DI, extension and
// resale across nodes, storage round trips); faults hit the voucher at rest.

type C04Plan struct {
	Seed   uint64 `json:"seed"`
	Key    string `json:"key"`
	Enc    uint8  `json:"enc"`
	Chain  int    `json:"chain"` // number of extensions (0..4)
	Sql    bool   `json:"sql"`
	Attack string `json:"attack"` // none | leaf | bit | splice | ext-signer | ext-next
	Ord    int    `json:"ord,omitempty"`
	Arg    string `json:"arg,omitempty"`
}

type c04 struct{ plans map[string][]C04Plan }

func init() { Register(&c04{plans: map[string][]C04Plan{}}) }

func (p *c04) ID() string    { return "C04" }
func (p *c04) Level() string { return "fault_enumeration" }
func (p *c04) NewPlan() any  { return &C04Plan{} }
func (p *c04) Rule() string {
	return "vouchers produced by real DI and extended 0..4 times along owner nodes (ExtendVoucher / TO2Server.Resell), re-encoded at every storage hop (simstore and sqlite): (a) untampered vouchers of every key type x encoding x chain length must pass all five verification steps and name the last extension key; (b) for the sweep families a complete structure-aware leaf mutation sweep and a bit flip at every byte of the stored encoding; (c) splices of header, HMAC, certificate chain, whole entry list and single entries from vouchers of another device / another manufacturer, entry swaps and duplications; (d) extension offered every wrong signer key of the pool and next-owner keys of every other type/size; non-trivial = the voucher was altered or a wrong key offered; distinct = distinct (alteration, outcome, log hash)"
}
func (p *c04) Exhaustive(string) bool { return false }
func (p *c04) Components() map[string][]string {
	return map[string][]string{
		"real": {"Voucher.VerifyHeader/VerifyManufacturerKey/VerifyCertChainHash/VerifyDeviceCertChain/VerifyEntries", "ExtendVoucher", "TO2Server.Resell", "DI (voucher creation)", "cbor voucher codec", "sqlite voucher storage (sql plans)"},
		"stub": {"storage-fault injector (alters the stored encoding)", "simstore", "clock", "crypto randomness"},
	}
}
func (p *c04) Assumptions() []string {
	return []string{
		"bound parts: header, header HMAC, certificate chain, every entry's protected value, payload and signature, entry order; unbound: outer version, unprotected COSE maps, CBOR framing around unchanged content, removal of trailing entries (yields the genuine earlier voucher)",
		"an altered encoding whose typed decode re-encodes to the original bytes carries the original content and is not judged",
		"the verification functions are pure; the simulation contributes the histories the vouchers and the foreign material come from and the fault placement on stored state",
	}
}

var c04Owners = []string{"owner1", "owner2", "owner3", "owner1"}

func c04Seed(seed uint64, fi, chain int) uint64 {
	return seed*8191 + uint64(fi)*131 + uint64(chain)*17 + 1
}

func (p *c04) Prepare(t *testing.T, tier string, seed uint64) {
	if _, ok := p.plans[tier]; ok {
		return
	}
	var plans []C04Plan
	i := 0
	for _, k := range KeyTypes {
		for _, e := range KeyEncs {
			if k.IsRSA() && e == protocol.CoseKeyEnc {
				continue
			}
			for chain := 0; chain <= 4; chain++ {
				for _, sql := range []bool{false, true} {
					if sql && (i%3 != 0) {
						i++
						continue
					}
					i++
					base := C04Plan{Seed: seed*1_000_003 + uint64(i)*3, Key: k.Name, Enc: uint8(e), Chain: chain, Sql: sql}
					b := base
					b.Attack = "none"
					plans = append(plans, b)
					for _, sp := range []string{"header:dev2", "hmac:dev2", "certchain:dev2", "entries:dev2", "entry0:dev2", "entrylast:dev2", "header:mfg2", "hmac:mfg2", "certchain:mfg2", "entries:mfg2", "entry0:mfg2", "swap-entries", "dup-entry", "reverse-entries", "drop-middle", "branch0", "branch1", "bad-headerhash", "sigpad1-last", "sigpad2-last", "sigpad16-last", "sigpad1-first"} {
						s := base
						s.Attack, s.Arg = "splice", sp
						plans = append(plans, s)
					}
					for _, role := range []string{"att1", "mfg2", "owner1", "owner2", "owner3", "mfg", "dev1"} {
						for _, fam := range AllFams {
							x := base
							x.Attack, x.Arg = "ext-signer", role+"/"+string(fam)
							plans = append(plans, x)
						}
					}
					for _, fam := range AllFams {
						x := base
						x.Attack, x.Arg = "ext-next", string(fam)
						plans = append(plans, x)
					}
				}
			}
		}
	}
	fams := c01SweepFams
	chains := []int{0, 2}
	if tier == "thorough" {
		chains = []int{0, 1, 2, 3}
	}
	for fi, f := range fams {
		for _, chain := range chains {
			base := C04Plan{Seed: c04Seed(seed, fi, chain), Key: f.Key, Enc: f.Enc, Chain: chain, Attack: "none"}
			var enc []byte
			_, restore := SeedCrypto(base.Seed)
			synctest.Test(t, func(t *testing.T) {
				c04Run(&Env{T: t, Out: &Outcome{Faults: map[string]int{}, Probes: map[string]int{}}}, &base, &enc)
			})
			restore()
			for m := range LeafMutations(enc) {
				pl := base
				pl.Attack, pl.Ord = "leaf", m
				plans = append(plans, pl)
			}
			step := 1
			if tier != "thorough" {
				step = 3
			}
			for b := 0; b < len(enc); b += step {
				pl := base
				pl.Attack, pl.Ord = "bit", b*8+(b%8)
				plans = append(plans, pl)
			}
		}
	}
	p.plans[tier] = plans
}

func (p *c04) NumPlans(tier string) int { return len(p.plans[tier]) }
func (p *c04) Plan(tier string, seed uint64, i int) any {
	pl := p.plans[tier][i]
	return &pl
}
func (p *c04) Shrink(plan any) []any {
	pl := plan.(*C04Plan)
	if pl.Sql {
		c := *pl
		c.Sql = false
		return []any{&c}
	}
	return nil
}
func (p *c04) Exec(env *Env, plan any) { c04Run(env, plan.(*C04Plan), nil) }

// c04Bound classifies a leaf mutation of an encoded voucher.
func c04Bound(m Mutation, nEntries int) bool {
	if !m.Semantic {
		return false
	}
	p := m.Path
	switch {
	case p == "" || p == "/0" || strings.HasPrefix(p, "/0/"):
		return false
	case p == "/1" || strings.HasPrefix(p, "/1/"), p == "/2" || strings.HasPrefix(p, "/2/"), p == "/3" || strings.HasPrefix(p, "/3/"):
		return true
	case p == "/4":
		return (m.Kind == "duplast" || m.Kind == "swap01") && nEntries >= 2 || m.Kind == "duplast" && nEntries == 1
	}
	if !strings.HasPrefix(p, "/4/") {
		return false
	}
	seg := strings.Split(strings.TrimPrefix(p, "/4/"), "/")
	if len(seg) == 1 {
		// the tag item of entry i: deleting a non-last entry breaks the chain
		var idx int
		fmt.Sscanf(seg[0], "%d", &idx)
		return m.Kind == "absent" && idx < nEntries-1
	}
	return signRegion("/"+strings.Join(seg[1:], "/"), "") == "bound"
}

func c04Run(env *Env, pl *C04Plan, collect *[]byte) {
	o := env.Out
	cfg := keyCfgByName(pl.Key, pl.Enc)
	ctx := context.Background()
	sql := map[string]bool{}
	if pl.Sql {
		sql = map[string]bool{"mfg": true, "owner1": true, "owner2": true}
	}
	s, cleanup := NewStdSql(nil, cfg, sql)
	defer cleanup()
	setupFail := func(step string, err error) {
		o.Class = "setup-failed:" + step
		o.Violate("C04", "honest-setup", step+"|"+pl.Key, "honest preparation step %s failed for %+v: %v", step, *pl, err)
	}
	defer func() {
		env.Logf("plan=%+v class=%s", *pl, o.Class)
		for k, v := range s.Net.Faults {
			o.Faults[k] += v
		}
	}()

	// history: DI, then extensions hopping through the owners' stores
	build := func(devName, role, mfg string, chain int) (*Device, *fdo.Voucher, string, error) {
		d := s.NewDevice(devName, role, cfg)
		if err := s.DI(ctx, d, mfg); err != nil {
			return nil, nil, "", fmt.Errorf("DI: %w", err)
		}
		holder, holderRole := mfg, mfg
		for i := 0; i < chain; i++ {
			next := c04Owners[i]
			if i == 0 {
				if _, err := s.ExtendTo(ctx, holder, d.Cred.GUID, cfg, holderRole, next, next); err != nil {
					return nil, nil, "", fmt.Errorf("extend %d: %w", i, err)
				}
			} else {
				// resale by the real responder of the holding node
				var pub any = s.Keys.Get(next, cfg.Fam()).Key.Public()
				if cfg.Enc == protocol.X5ChainKeyEnc {
					pub = s.Keys.Get(next, cfg.Fam()).Chain
				}
				s.Nodes[holder].Handler() // make sure responders exist
				ov, err := s.Nodes[holder].TO2.Resell(ctx, d.Cred.GUID, pub, nil)
				if err != nil {
					return nil, nil, "", fmt.Errorf("resell %d at %s: %w", i, holder, err)
				}
				if next == holder {
					// the same service sells to itself: voucher stays
				}
				if err := s.Nodes[next].Store.AddVoucher(ctx, ov); err != nil {
					return nil, nil, "", fmt.Errorf("add at %s: %w", next, err)
				}
			}
			holder, holderRole = next, next
		}
		ov, err := s.Nodes[holder].Store.Voucher(ctx, d.Cred.GUID)
		if err != nil {
			return nil, nil, "", fmt.Errorf("load from %s: %w", holder, err)
		}
		return d, ov, holderRole, nil
	}
	d1, ov, ownerRole, err := build("dev1", "dev1", "mfg", pl.Chain)
	if err != nil {
		setupFail("history", err)
		return
	}
	enc, err := cbor.Marshal(ov)
	if err != nil {
		setupFail("encode", err)
		return
	}
	if collect != nil {
		*collect = enc
	}
	roots := x509.NewCertPool()
	roots.AddCert(s.Keys.Get("devca", P384).Cert)
	h256, h384 := d1.HMACs()
	// the credential the device held after DI binds the manufacturer key
	verify := func(v *fdo.Voucher) (failed []string, panicked string) {
		defer func() {
			if r := recover(); r != nil {
				panicked = fmt.Sprint(r)
			}
		}()
		if err := v.VerifyHeader(h256, h384); err != nil {
			failed = append(failed, "header")
		}
		if err := v.VerifyManufacturerKey(d1.Cred.PublicKeyHash); err != nil {
			failed = append(failed, "mfgkey")
		}
		if err := v.VerifyCertChainHash(); err != nil {
			failed = append(failed, "certhash")
		}
		if err := v.VerifyDeviceCertChain(roots); err != nil {
			failed = append(failed, "certchain")
		}
		if err := v.VerifyEntries(); err != nil {
			failed = append(failed, "entries")
		}
		return
	}
	decodeVerify := func(b []byte) (decoded bool, failed []string, panicked string, v *fdo.Voucher) {
		defer func() {
			if r := recover(); r != nil {
				panicked = "decode: " + fmt.Sprint(r)
			}
		}()
		var x fdo.Voucher
		if err := cbor.Unmarshal(b, &x); err != nil {
			return false, nil, "", nil
		}
		f, pn := verify(&x)
		return true, f, pn, &x
	}

	switch pl.Attack {
	case "none":
		_, failed, panicked, v := decodeVerify(enc)
		if len(failed) > 0 || panicked != "" {
			o.Class = "GENUINE-REJECTED"
			o.Violate("C04", "genuine-voucher-must-verify", fmt.Sprintf("%s|chain%d|%v", pl.Key, pl.Chain, failed), "untampered voucher (chain %d, %s enc %d, sql=%v) failed %v panic=%q", pl.Chain, pl.Key, pl.Enc, pl.Sql, failed, panicked)
			return
		}
		pub, err := v.OwnerPublicKey()
		want := s.Keys.Get(ownerRole, cfg.Fam()).Key.Public()
		if err != nil || !want.(interface{ Equal(crypto.PublicKey) bool }).Equal(pub) {
			o.Violate("C04", "owner-key", pl.Key, "OwnerPublicKey is not the key of the last extension (%s): %v", ownerRole, err)
		}
		if len(v.Entries) != pl.Chain {
			o.Violate("C04", "owner-key", "entries", "voucher has %d entries after %d extensions", len(v.Entries), pl.Chain)
		}
		// the genuine owner can extend, and the result verifies again
		xv, err := ExtendWith(v, s.Keys.Get(ownerRole, cfg.Fam()), s.Keys.Get("att2", cfg.Fam()), cfg)
		if err != nil {
			o.Violate("C04", "owner-can-extend", pl.Key, "current owner could not extend: %v", err)
		} else if f, pn := verify(xv); len(f) > 0 || pn != "" {
			o.Violate("C04", "owner-can-extend", "result|"+pl.Key, "extended voucher fails %v %s", f, pn)
		} else {
			// history: a sale falls through and the same voucher object is extended
			// to another buyer; the first result must remain what it was. Repeated
			// for vouchers that were themselves produced in memory by 1..3 further
			// extensions (their entry slices have grown by appending).
			w, holder := v, ownerRole
			for depth := 0; depth < 4; depth++ {
				buyerA, buyerB := "att2", "att1"
				if holder == "att2" {
					buyerA, buyerB = "att1", "owner3"
				}
				x1, err1 := ExtendWith(w, s.Keys.Get(holder, cfg.Fam()), s.Keys.Get(buyerA, cfg.Fam()), cfg)
				if err1 != nil {
					o.Violate("C04", "owner-can-extend", "depth|"+pl.Key, "holder %s could not extend at depth %d: %v", holder, depth, err1)
					break
				}
				before, _ := cbor.Marshal(x1)
				_, err2 := ExtendWith(w, s.Keys.Get(holder, cfg.Fam()), s.Keys.Get(buyerB, cfg.Fam()), cfg)
				after, _ := cbor.Marshal(x1)
				o.Fault("extended-twice")
				if err2 != nil {
					o.Violate("C04", "owner-can-extend", "second|"+pl.Key, "holder could not extend a second time: %v", err2)
					break
				}
				if !bytes.Equal(before, after) {
					pub1, _ := x1.OwnerPublicKey()
					wantA := s.Keys.Get(buyerA, cfg.Fam()).Key.Public()
					o.Class = "EXTENSION-ALIASED"
					o.Violate("C04", "extension-history", "second-extension-rewrites-first", "extending a voucher with %d entries (%d of them appended in memory) to a second buyer changed the voucher already extended to the first buyer; it still names the first buyer: %v", len(w.Entries), depth, pub1 != nil && wantA.(interface{ Equal(crypto.PublicKey) bool }).Equal(pub1))
					return
				}
				w, holder = x1, buyerA
			}
		}
		o.Class = "genuine-ok"
		o.Nontrivial = pl.Chain >= 1
		o.Sample = map[string]any{"entries": len(v.Entries), "bytes": len(enc)}
		return

	case "leaf", "bit":
		var mutated []byte
		var desc string
		bound := true
		if pl.Attack == "leaf" {
			muts := LeafMutations(enc)
			if len(muts) == 0 {
				o.Class = "noop"
				return
			}
			m := muts[pl.Ord%len(muts)]
			mutated, desc, bound = m.Apply(), m.String(), c04Bound(m, pl.Chain)
		} else {
			if pl.Ord/8 >= len(enc) {
				o.Class = "noop"
				return
			}
			mutated = append([]byte(nil), enc...)
			mutated[pl.Ord/8] ^= 1 << uint(pl.Ord%8)
			desc = fmt.Sprintf("bit %d", pl.Ord)
			// a flipped bit is judged when it lands in bound content (decided by
			// the refcbor tree of the original)
			bound = c04BitBound(enc, pl.Ord/8, pl.Chain)
		}
		o.Fault(pl.Attack)
		if string(mutated) == string(enc) {
			o.Class = "noop"
			return
		}
		decoded, failed, panicked, v := decodeVerify(mutated)
		o.Sample = map[string]any{"alteration": desc, "bound": bound, "decoded": decoded, "failed": failed}
		if pl.Attack == "leaf" && strings.HasPrefix(desc, "/2") && decoded && panicked == "" {
			// alterations of the header HMAC are verified a second time with a
			// hardware-style HMAC engine whose finalisation fails: a failing
			// engine must never make a voucher verify
			good256, good384 := h256, h384
			d1.HmacSums, d1.HmacFailSum = 0, 1
			h256, h384 = d1.HMACs()
			_, failed2, panicked2, _ := decodeVerify(mutated)
			h256, h384 = good256, good384
			d1.HmacFailSum = 0
			o.Fault("hmac-engine-fails")
			if panicked2 != "" {
				o.Violate("C04", "verification-panicked", "hmac-fault|"+regionKey(desc), "verification with a failing HMAC engine panicked for %s: %s", desc, panicked2)
			} else if len(failed2) == 0 {
				o.Class = "TAMPERED-ACCEPTED"
				o.Violate("C04", "tampered-voucher-verified", "hmac-fault|"+attackRegion(desc), "voucher altered by %s passes every verification step while the device's HMAC engine fails (%s chain %d)", desc, pl.Key, pl.Chain)
				return
			}
		}
		if panicked != "" {
			o.Class = "PANIC"
			o.Violate("C04", "verification-panicked", regionKey(desc), "verification of a voucher altered by %s panicked: %s", desc, panicked)
			return
		}
		if decoded && len(failed) == 0 {
			if nb, err := cbor.Marshal(v); err == nil && string(nb) == string(enc) {
				o.Class = "equivalent-encoding"
				o.Probe("accepted-noncanonical-but-equal-content")
				return
			}
			if bound {
				o.Class = "TAMPERED-ACCEPTED"
				o.Violate("C04", "tampered-voucher-verified", attackRegion(desc), "voucher altered by %s passes every verification step (%s chain %d)", desc, pl.Key, pl.Chain)
				return
			}
			o.Class = "unbound-accepted"
			return
		}
		if bound {
			o.Class = "rejected"
		} else {
			o.Class = "unbound-rejected"
		}
		return

	case "splice":
		kind, src, _ := strings.Cut(pl.Arg, ":")
		var other *fdo.Voucher
		if src != "" {
			mfg := "mfg"
			if src == "mfg2" {
				mfg = "mfg2"
			}
			_, ov2, _, err := build("dev2", "dev2", mfg, max(pl.Chain, 1))
			if err != nil {
				setupFail("history2", err)
				return
			}
			other = ov2
		}
		t := *ov
		t.Entries = append([]cose.Sign1Tag[fdo.VoucherEntryPayload, []byte](nil), ov.Entries...)
		applicable := true
		switch kind {
		case "header":
			t.Header = other.Header
		case "hmac":
			t.Hmac = other.Hmac
		case "certchain":
			t.CertChain = other.CertChain
		case "entries":
			t.Entries = other.Entries
		case "entry0":
			if len(t.Entries) == 0 {
				applicable = false
			} else {
				t.Entries[0] = other.Entries[0]
			}
		case "entrylast":
			if len(t.Entries) == 0 || len(other.Entries) < len(t.Entries) {
				applicable = false
			} else {
				t.Entries[len(t.Entries)-1] = other.Entries[len(t.Entries)-1]
			}
		case "swap-entries":
			if len(t.Entries) < 2 {
				applicable = false
			} else {
				t.Entries[0], t.Entries[1] = t.Entries[1], t.Entries[0]
			}
		case "reverse-entries":
			if len(t.Entries) < 2 {
				applicable = false
			} else {
				for a, b := 0, len(t.Entries)-1; a < b; a, b = a+1, b-1 {
					t.Entries[a], t.Entries[b] = t.Entries[b], t.Entries[a]
				}
			}
		case "dup-entry":
			if len(t.Entries) == 0 {
				applicable = false
			} else {
				t.Entries = append(t.Entries, t.Entries[len(t.Entries)-1])
			}
		case "branch0", "branch1":
			// the same signer extended the same voucher prefix twice (different
			// OVEExtra); the tail of the chain was made over the other variant, so
			// every signature is genuine and only the previous-hash link is wrong
			bi := 0
			if kind == "branch1" {
				bi = 1
			}
			if len(t.Entries) < bi+2 {
				applicable = false
				break
			}
			prefix := *ov
			prefix.Entries = append([]cose.Sign1Tag[fdo.VoucherEntryPayload, []byte](nil), ov.Entries[:bi]...)
			signerRole := "mfg"
			if bi > 0 {
				signerRole = c04Owners[bi-1]
			}
			alt, err := ExtendWithExtra(&prefix, s.Keys.Get(signerRole, cfg.Fam()), s.Keys.Get(c04Owners[bi], cfg.Fam()), cfg, map[int][]byte{9: []byte("second sale")})
			if err != nil {
				setupFail("branch-extend", err)
				return
			}
			t.Entries[bi] = alt.Entries[bi]
		case "bad-headerhash":
			// the legitimate signer extends with a wrong header hash
			if len(t.Entries) != 1 {
				applicable = false
				break
			}
			prefix := *ov
			prefix.Entries = nil
			fv, err := forgeEntry(&prefix, s.Keys.Get("mfg", cfg.Fam()), s.Keys.Get(c04Owners[0], cfg.Fam()), cfg, func(p *fdo.VoucherEntryPayload) {
				p.HeaderHash.Value = append([]byte(nil), p.HeaderHash.Value...)
				p.HeaderHash.Value[1] ^= 0x20
			})
			if err != nil {
				setupFail("forge-entry", err)
				return
			}
			t.Entries = fv.Entries
		case "sigpad1-last", "sigpad2-last", "sigpad16-last", "sigpad1-first":
			// the signature octets of an entry in another encoding of the same
			// integer (zero octets in front): only the next entry's hash would bind
			// them, and the last entry has no successor
			if len(t.Entries) == 0 {
				applicable = false
			} else {
				i := len(t.Entries) - 1
				if strings.HasSuffix(kind, "-first") {
					i = 0
				}
				var n int
				fmt.Sscanf(strings.TrimPrefix(kind, "sigpad"), "%d", &n)
				e := t.Entries[i]
				e.Signature = append(make([]byte, n), e.Signature...)
				t.Entries[i] = e
			}
		case "drop-middle":
			if len(t.Entries) < 3 {
				applicable = false
			} else {
				t.Entries = append(t.Entries[:1:1], t.Entries[2:]...)
			}
		}
		if !applicable {
			o.Class = "noop"
			return
		}
		o.Fault("splice:" + kind)
		b, err := cbor.Marshal(&t)
		if err != nil {
			setupFail("encode-splice", err)
			return
		}
		decoded, failed, panicked, _ := decodeVerify(b)
		o.Sample = map[string]any{"splice": pl.Arg, "decoded": decoded, "failed": failed}
		if panicked != "" {
			o.Class = "PANIC"
			o.Violate("C04", "verification-panicked", "splice:"+kind, "verification of a spliced voucher (%s) panicked: %s", pl.Arg, panicked)
			return
		}
		if decoded && len(failed) == 0 {
			o.Class = "SPLICE-ACCEPTED"
			o.Violate("C04", "tampered-voucher-verified", "splice:"+pl.Arg, "voucher with %s passes every verification step (%s chain %d)", pl.Arg, pl.Key, pl.Chain)
			return
		}
		o.Class = "rejected"
		return

	case "ext-signer":
		role, fam, _ := strings.Cut(pl.Arg, "/")
		signer := s.Keys.Get(role, KeyFam(fam))
		if role == ownerRole && KeyFam(fam) == cfg.Fam() {
			o.Class = "noop" // that is the genuine owner
			return
		}
		o.Fault("wrong-signer")
		var xerr error
		var xv *fdo.Voucher
		perr, panicked := s.Net.SafeCall("extend", func() error {
			xv, xerr = ExtendWith(ov, signer, s.Keys.Get("att2", cfg.Fam()), cfg)
			return nil
		})
		_ = perr
		if panicked {
			o.Class = "PANIC"
			o.Violate("C04", "extension-panicked", pl.Arg, "ExtendVoucher with signer %s panicked", pl.Arg)
			return
		}
		if xerr == nil {
			f, _ := verify(xv)
			o.Class = "WRONG-SIGNER-EXTENDED"
			o.Violate("C04", "wrong-signer-extended", role+"|samefam="+fmt.Sprint(KeyFam(fam) == cfg.Fam()), "ExtendVoucher succeeded with key %s which is not the current owner (%s); result verification failures: %v", pl.Arg, ownerRole, f)
			return
		}
		o.Class = "extension-refused"
		return

	case "ext-next":
		fam := KeyFam(pl.Arg)
		if fam == cfg.Fam() {
			o.Class = "noop"
			return
		}
		o.Fault("wrong-next-key")
		next := s.Keys.Get("att2", fam)
		ncfg := cfg
		var xerr error
		_, panicked := s.Net.SafeCall("extend", func() error {
			_, xerr = ExtendWith(ov, s.Keys.Get(ownerRole, cfg.Fam()), next, ncfg)
			return nil
		})
		if panicked {
			o.Class = "PANIC"
			o.Violate("C04", "extension-panicked", "next:"+pl.Arg, "ExtendVoucher to a %s key panicked", pl.Arg)
			return
		}
		if xerr == nil {
			o.Class = "WRONG-NEXT-KEY-EXTENDED"
			o.Violate("C04", "wrong-next-key-extended", string(cfg.Fam())+"->"+pl.Arg, "ExtendVoucher of a %s voucher to a next-owner key of family %s succeeded", cfg.Fam(), pl.Arg)
			return
		}
		o.Class = "extension-refused"
		return
	}
	setupFail("unknown-attack", fmt.Errorf("%q", pl.Attack))
}

// c04BitBound reports whether byte offset off of the encoded voucher lies in
// bound content.
func c04BitBound(enc []byte, off, nEntries int) bool {
	root, err := ParseCBOR(enc)
	if err != nil || len(root.Kids) != 5 {
		return false
	}
	in := func(n *CNode) bool { return off >= n.Start+n.HeadLen && off < n.End }
	// header content, hmac value bytes, cert DER bytes
	if in(root.Kids[1]) {
		return true
	}
	if root.Kids[2].Major == 4 && len(root.Kids[2].Kids) == 2 && in(root.Kids[2].Kids[1]) {
		return true
	}
	if root.Kids[3].Major == 4 {
		for _, c := range root.Kids[3].Kids {
			if in(c) {
				return true
			}
		}
	}
	if root.Kids[4].Major == 4 {
		for _, e := range root.Kids[4].Kids {
			if e.Major != 6 || len(e.Kids) != 1 || len(e.Kids[0].Kids) != 4 {
				continue
			}
			a := e.Kids[0]
			if in(a.Kids[2]) || in(a.Kids[3]) {
				return true
			}
		}
	}
	return false
}

func attackRegion(desc string) string {
	f := strings.Fields(desc)
	if len(f) == 2 && strings.HasPrefix(f[0], "/") {
		return regionKey(f[0]) + "|" + f[1]
	}
	return desc
}
