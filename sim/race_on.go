//go:build race

package fdosim

import (
	"runtime"
	_ "unsafe" // go:linkname
)

func raceOff() { runtime.RaceDisable() }
func raceOn()  { runtime.RaceEnable() }

// RaceBuild reports whether the binary was built with -race.
const RaceBuild = true

// raceErrors returns the number of reports the race detector has made so far
// in this process (what the testing package reads at the end of a test).
//
//go:linkname raceErrors internal/race.Errors
func raceErrors() int
