//go:build race

package fdosim

import "runtime"

func raceOff() { runtime.RaceDisable() }
func raceOn()  { runtime.RaceEnable() }

// RaceBuild reports whether the binary was built with -race.
const RaceBuild = true
