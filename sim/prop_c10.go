package fdosim

import (
	"bytes"
	crand "crypto/rand"
	"crypto/rsa"
	"context"
	"fmt"
	"io"
	"log/slog"
	"math/rand/v2"
	"os"
	"runtime"
	"strings"
	"testing"
	"testing/synctest"

	fdo "github.com/fido-device-onboard/go-fdo"
	"github.com/fido-device-onboard/go-fdo/cbor"
	"github.com/fido-device-onboard/go-fdo/kex"
	"github.com/fido-device-onboard/go-fdo/protocol"
	"github.com/fido-device-onboard/go-fdo/serviceinfo"
)

// C10 — no peer-supplied bytes can crash, hang or exhaust a protocol
// endpoint. Every protocol runs honestly up to a message position, then the
// message in flight at that position is corrupted.

type C10Plan struct {
	Seed  uint64 `json:"seed"`
	Key   string `json:"key"`
	Enc   uint8  `json:"enc"`
	Sql   bool   `json:"sql"`
	Proto string `json:"proto"` // DI | TO0 | TO1 | TO2
	Phase string `json:"phase"` // req | resp
	Msg   int    `json:"msg"`
	Occur int    `json:"occur"`
	Kind  string `json:"kind"` // none | mut | garbage | bomb | http | dup
	Ord   int    `json:"ord"`
	// Wire: the position is an encrypted message and the corruption is applied
	// to its COSE wrapper on the wire instead of to the plaintext inside.
	Wire bool `json:"wire,omitempty"`
	// Partial: every node serves only the protocols of its role (manufacturer
	// DI, rendezvous TO0+TO1, owner TO2); the other responders are absent.
	Partial bool `json:"partial,omitempty"`
	// Debug: the process logs at debug level (as the example server does with
	// -debug): the HTTP layer then buffers and pretty-prints every request and
	// response body, peer-supplied bytes included, before and after handling.
	Debug bool `json:"debug,omitempty"`
}

type c10Pos struct {
	Proto, Phase string
	Msg, Occur   int
	Wire         bool
}

var c10Positions = []c10Pos{
	{"DI", "req", 10, 0, false}, {"DI", "resp", 11, 0, false}, {"DI", "req", 12, 0, false}, {"DI", "resp", 13, 0, false},
	{"TO0", "req", 20, 0, false}, {"TO0", "resp", 21, 0, false}, {"TO0", "req", 22, 0, false}, {"TO0", "resp", 23, 0, false},
	{"TO1", "req", 30, 0, false}, {"TO1", "resp", 31, 0, false}, {"TO1", "req", 32, 0, false}, {"TO1", "resp", 33, 0, false},
	{"TO2", "req", 60, 0, false}, {"TO2", "resp", 61, 0, false}, {"TO2", "req", 62, 0, false}, {"TO2", "resp", 63, 0, false}, {"TO2", "req", 64, 0, false}, {"TO2", "resp", 65, 0, false},
	{"TO2", "req", 66, 0, false}, {"TO2", "resp", 67, 0, false}, {"TO2", "req", 68, 0, false}, {"TO2", "resp", 69, 0, false}, {"TO2", "req", 68, 2, false}, {"TO2", "resp", 69, 2, false},
	{"TO2", "req", 70, 0, false}, {"TO2", "resp", 71, 0, false},
	{"TO2", "resp", 65, 0, true}, {"TO2", "req", 66, 0, true}, {"TO2", "req", 68, 0, true}, {"TO2", "resp", 69, 0, true}, {"TO2", "req", 70, 0, true}, {"TO2", "resp", 71, 0, true},
}

// inTunnel reports whether the position is only reachable as plaintext inside
// the encrypted tunnel (mutated by a rogue-but-authenticated peer).
func (p c10Pos) inTunnel() bool {
	return !p.Wire && p.Proto == "TO2" && ((p.Phase == "req" && p.Msg >= 66) || (p.Phase == "resp" && p.Msg >= 65))
}

var c10StoreMethods = append(append([]string(nil), c03Methods...), "SetRVBlob", "RVBlob", "SetTO0SignNonce", "TO0SignNonce", "SetTO1ProofNonce", "TO1ProofNonce")

var c10MfgKeys = []struct {
	T    protocol.KeyType
	Bits int
}{{protocol.Secp256r1KeyType, 0}, {protocol.Secp384r1KeyType, 0}, {protocol.Rsa2048RestrKeyType, 2048}, {protocol.RsaPkcsKeyType, 3072}, {protocol.RsaPssKeyType, 3072}, {protocol.RsaPkcsKeyType, 2048},
	// sizes outside the two the specification names (generated per run)
	{protocol.RsaPkcsKeyType, 1024}, {protocol.RsaPssKeyType, 1536}}

var c10KexNames = []string{"ECDH256", "ASYMKEX2048", "", "ECDH", "ecdh256", "DHKEXid16", "ASYMKEX4096", "ECDH521"}

// cipher suite identifiers: the COSE registry range around the defined AEAD
// and CCM values, the FDO private range, and boundary values
var c10CipherIDs = func() []int64 {
	var ids []int64
	for i := int64(-3); i <= 40; i++ {
		ids = append(ids, i)
	}
	for i := int64(-17760710); i <= -17760700; i++ {
		ids = append(ids, i)
	}
	return append(ids, -65534, -65531, 1<<31, -1<<31, 1<<62)
}()

var c10HTTPFaults = []string{"no-content-length", "huge-content-length", "short-content-length", "bad-auth-scheme", "garbage-token", "other-protocol-token",
	"method-get", "path-unknown-msg", "path-nested", "path-not-number", "msg-255-garbage", "msg-255-valid", "empty-body", "resp-bad-msgtype-header", "resp-status-418", "resp-huge-content-length", "resp-no-content-type",
	"msg-255-prev-10", "msg-255-prev-20", "msg-255-prev-30", "msg-255-prev-60", "msg-255-prev-0", "msg-255-prev-99", "path-other-proto-10", "path-other-proto-20", "path-other-proto-30", "path-other-proto-60"}

type c10 struct {
	plans map[string][]C10Plan
	alloc map[string]uint64 // honest allocation baseline per family/proto
}

func init() { Register(&c10{plans: map[string][]C10Plan{}, alloc: map[string]uint64{}}) }

func (p *c10) ID() string    { return "C10" }
func (p *c10) Level() string { return "fault_enumeration" }
func (p *c10) NewPlan() any  { return &C10Plan{} }
func (p *c10) Rule() string {
	return "for each configuration family and each message position of DI, TO0, TO1, TO2 (requests towards the responders and responses towards the client roles; positions 65-71 as plaintext mutated by an authenticated rogue peer inside the tunnel): every structure-aware mutation (refcbor leaf x kind list incl. boundary integers, type changes, null/absent, length and count inflation) and byte-level mutation of the honest message, seeded random garbage up to 64 KiB, nesting/length bombs, and HTTP-level damage (content-length, authorization, method, path, message-type header, status); the endpoint holds the real session state of all preceding honest steps; non-trivial = the corrupted message was delivered; distinct = distinct (position, mutation, outcome, log hash)"
}
func (p *c10) DeadlockIsViolation() bool { return true }
func (p *c10) Exhaustive(string) bool    { return false }
func (p *c10) Components() map[string][]string {
	return map[string][]string{
		"real": {"http.Handler", "DI/TO0/TO1/TO2 responders", "fdo.DI/TO0Client/TO1/TO2 client roles", "http.Transport", "cbor decoder", "cose", "kex", "devmod owner module", "sqlite.DB (sql plans)"},
		"stub": {"network fault injector", "rogue authenticated peer (wrapping Responder / Transport that alters plaintext)", "simstore", "clock", "crypto randomness", "ping modules"},
	}
}
func (p *c10) Assumptions() []string {
	return []string{
		"panic = recovered by the node wrapper (server) or the client-call wrapper, or a process crash from a library goroutine (worker exits, reported as trouble with the stack)",
		"allocation bound for handling the corrupted message (window: from the corruption until the receiver's next network event or return): 2 x allocation of the whole honest run of that protocol and family + 4 MiB + 64 x message size, measured with runtime.MemStats.TotalAlloc in a single-run-at-a-time worker",
		"reaching the library's own 1e6-round service-info limit is bounded behaviour, not a hang; it is cut short by the simulator's message budget and counted by a probe; a synctest deadlock is a hang",
	}
}

var c10Fams = []struct {
	Key string
	Enc uint8
}{{"P-256", 1}, {"RSA2048RESTR", 2}, {"P-384", 3}}

func c10Seed(seed uint64, fi int, proto string) uint64 {
	return seed*2671 + uint64(fi)*193 + uint64(len(proto))*7 + uint64(proto[len(proto)-1])
}

func (p *c10) Prepare(t *testing.T, tier string, seed uint64) {
	if _, ok := p.plans[tier]; ok {
		return
	}
	var plans []C10Plan
	fams := c10Fams[:2]
	if tier == "thorough" {
		fams = c10Fams
	}
	for fi, f := range fams {
		for _, proto := range []string{"DI", "TO0", "TO1", "TO2"} {
			base := C10Plan{Seed: c10Seed(seed, fi, proto), Key: f.Key, Enc: f.Enc, Proto: proto, Kind: "none"}
			bodies := map[c10Pos][]byte{}
			_, restore := SeedCrypto(base.Seed)
			var alloc uint64
			synctest.Test(t, func(t *testing.T) {
				alloc = c10Run(&Env{T: t, Out: &Outcome{Faults: map[string]int{}, Probes: map[string]int{}}}, &base, bodies, 0)
			})
			restore()
			p.alloc[f.Key+"/"+proto] = alloc
			plans = append(plans, base)
			for _, pos := range c10Positions {
				if pos.Proto != proto {
					continue
				}
				b, ok := bodies[pos]
				if !ok {
					continue
				}
				n := len(AllMutations(b))
				stride := 1
				if tier != "thorough" && fi > 0 {
					stride = 3 // quick: the second family is sampled
				}
				for m := fi % stride; m < n; m += stride {
					plans = append(plans, C10Plan{Seed: base.Seed, Key: f.Key, Enc: f.Enc, Proto: proto, Phase: pos.Phase, Msg: pos.Msg, Occur: pos.Occur, Wire: pos.Wire, Kind: "mut", Ord: m})
				}
				ng, nb := 6, 10
				if tier == "thorough" {
					ng = 40
				}
				for g := 0; g < ng; g++ {
					plans = append(plans, C10Plan{Seed: base.Seed, Key: f.Key, Enc: f.Enc, Proto: proto, Phase: pos.Phase, Msg: pos.Msg, Occur: pos.Occur, Wire: pos.Wire, Kind: "garbage", Ord: g})
				}
				for g := 0; g < nb; g++ {
					plans = append(plans, C10Plan{Seed: base.Seed, Key: f.Key, Enc: f.Enc, Proto: proto, Phase: pos.Phase, Msg: pos.Msg, Occur: pos.Occur, Wire: pos.Wire, Kind: "bomb", Ord: g})
				}
				if pos.Phase == "req" && (pos.Msg == 10 || pos.Msg == 20 || pos.Msg == 30 || pos.Msg == 60) && fi == 0 {
					for g := 0; g < 3*len(c10StoreMethods); g++ {
						plans = append(plans, C10Plan{Seed: base.Seed, Key: f.Key, Enc: f.Enc, Proto: proto, Phase: pos.Phase, Msg: pos.Msg, Occur: pos.Occur, Kind: "store", Ord: g})
					}
				}
				if pos.Phase == "req" && pos.Msg == 10 {
					// a manufacturer answering with a key of another family, to devices
					// with and without an HMAC-SHA384 engine
					for g := 0; g < 2*len(c10MfgKeys); g++ {
						plans = append(plans, C10Plan{Seed: base.Seed, Key: f.Key, Enc: f.Enc, Proto: proto, Phase: pos.Phase, Msg: pos.Msg, Occur: pos.Occur, Kind: "mfgkey", Ord: g})
					}
				}
				if pos.Phase == "req" && pos.Msg == 60 && fi == 0 {
					n := len(c10KexNames) * len(c10CipherIDs)
					step := 1
					if tier != "thorough" {
						step = 3 // quick: every cipher id with at least two key exchange names
					}
					for g := 0; g < n; g += step {
						plans = append(plans, C10Plan{Seed: base.Seed, Key: f.Key, Enc: f.Enc, Proto: proto, Phase: pos.Phase, Msg: pos.Msg, Occur: pos.Occur, Kind: "suite", Ord: g})
					}
				}
				if pos.Phase == "req" && pos.Msg == 68 && pos.Occur == 0 && !pos.Wire && fi == 0 {
					// well-formed but hostile devmod histories from an authenticated device
					ns := 240
					if tier == "thorough" {
						ns = 4000
					}
					for g := 0; g < ns; g++ {
						plans = append(plans, C10Plan{Seed: base.Seed, Key: f.Key, Enc: f.Enc, Sql: g%16 == 7, Proto: proto, Phase: pos.Phase, Msg: pos.Msg, Occur: pos.Occur, Kind: "script", Ord: g})
					}
				}
				if pos.Phase == "req" && !pos.inTunnel() {
					plans = append(plans, C10Plan{Seed: base.Seed, Key: f.Key, Enc: f.Enc, Sql: fi == 0, Proto: proto, Phase: pos.Phase, Msg: pos.Msg, Occur: pos.Occur, Wire: pos.Wire, Kind: "dup"})
					plans = append(plans, C10Plan{Seed: base.Seed, Key: f.Key, Enc: f.Enc, Proto: proto, Phase: pos.Phase, Msg: pos.Msg, Occur: pos.Occur, Wire: pos.Wire, Kind: "dup"})
				}
				if !pos.inTunnel() && !pos.Wire {
					for hi := range c10HTTPFaults {
						plans = append(plans, C10Plan{Seed: base.Seed, Key: f.Key, Enc: f.Enc, Sql: hi%2 == 1 && fi == 0, Proto: proto, Phase: pos.Phase, Msg: pos.Msg, Occur: pos.Occur, Kind: "http", Ord: hi})
						if pos.Phase == "req" {
							// the same damage against a deployment where each service
							// runs only the responders of its role
							plans = append(plans, C10Plan{Seed: base.Seed, Key: f.Key, Enc: f.Enc, Sql: hi%2 == 0 && fi == 0, Proto: proto, Phase: pos.Phase, Msg: pos.Msg, Occur: pos.Occur, Kind: "http", Ord: hi, Partial: true})
						}
					}
				}
			}
		}
	}
	// a slice of the sweep on the sqlite backend (token parsing, SQL errors)
	if len(plans) > 0 {
		r := rand.New(rand.NewPCG(seed, 77))
		n := len(plans) / 25
		for i := 0; i < n; i++ {
			pl := plans[r.IntN(len(plans))]
			if pl.Kind == "none" {
				continue
			}
			pl.Sql = true
			plans = append(plans, pl)
		}
		// another slice with debug logging switched on (the HTTP layer then
		// buffers and pretty-prints peer-supplied bodies around the handler)
		r = rand.New(rand.NewPCG(seed, 78))
		for i := 0; i < n; i++ {
			pl := plans[r.IntN(len(plans))]
			if pl.Kind == "none" || pl.Debug {
				continue
			}
			pl.Debug = true
			plans = append(plans, pl)
		}
	}
	p.plans[tier] = plans
}

func (p *c10) NumPlans(tier string) int { return len(p.plans[tier]) }
func (p *c10) Plan(tier string, seed uint64, i int) any {
	pl := p.plans[tier][i]
	return &pl
}
func (p *c10) Shrink(plan any) []any {
	pl := plan.(*C10Plan)
	var out []any
	if pl.Sql {
		c := *pl
		c.Sql = false
		out = append(out, &c)
	}
	if pl.Debug {
		c := *pl
		c.Debug = false
		out = append(out, &c)
	}
	if pl.Partial {
		c := *pl
		c.Partial = false
		out = append(out, &c)
	}
	return out
}
func (p *c10) Exec(env *Env, plan any) {
	pl := plan.(*C10Plan)
	c10Run(env, pl, nil, p.alloc[pl.Key+"/"+pl.Proto])
}

// c10DevmodScript returns a syntactically valid TO2.DeviceServiceInfo whose
// devmod key/values form a hostile history: module-list chunks that overlap,
// repeat, overrun or precede nummodules, counts that change mid-way, values
// of the wrong type.
func c10DevmodScript(seed uint64, ord int) ([]byte, string) {
	r := rand.New(rand.NewPCG(seed^0xdeed, uint64(ord)))
	enc := func(v any) []byte { return c10Enc(v) }
	var kvs []any
	var desc []string
	kv := func(key string, val any) {
		kvs = append(kvs, []any{key, enc(val)})
		desc = append(desc, fmt.Sprintf("%s=%v", strings.TrimPrefix(key, "devmod:"), val))
	}
	if ord%40 == 39 {
		// one message with very many key changes (every key/value opens a new
		// reader on the owner side): counts around and far beyond the queue sizes
		// the library uses elsewhere, still well inside the transport limit
		cnt := []int{999, 1000, 1001, 1002, 2000, 4000}[(ord/40)%6]
		valid := (ord/240)%2 == 0
		for i := 0; i < cnt; i++ {
			if valid {
				kvs = append(kvs, []any{[]string{"devmod:os", "devmod:arch"}[i%2], enc("x")})
			} else {
				kvs = append(kvs, []any{fmt.Sprintf("m%d:k", i%7), enc(int64(i))})
			}
		}
		return enc([]any{false, kvs}), fmt.Sprintf("devmod-script#%d key-flood n=%d valid=%v", ord, cnt, valid)
	}
	ns := []int64{0, 1, 2, 3, 3, 4, 5, 8, 255, 256, 65535, 1 << 20, 1 << 31, -1}
	n := ns[r.IntN(len(ns))]
	nearValid := ord%4 != 3
	if nearValid {
		// most scripts stay close to a valid history: small list, chunks placed
		// around the fill level and the end of the list
		n = int64(1 + r.IntN(6))
	}
	filled := int64(0)
	if r.IntN(5) != 0 {
		kv("devmod:active", true)
	}
	if r.IntN(6) != 0 || nearValid {
		kv("devmod:nummodules", n)
	}
	steps := 1 + r.IntN(5)
	for i := 0; i < steps; i++ {
		switch r.IntN(10) {
		case 0:
			kv("devmod:nummodules", ns[r.IntN(len(ns))])
		case 1:
			kv("devmod:"+[]string{"os", "arch", "version", "device", "sep", "bin", "sn", "pathsep", "nl", "tmp", "dir", "progenv", "mudurl"}[r.IntN(13)],
				[]any{int64(1), "x", []byte{1}, nil, true, []any{}}[r.IntN(6)])
		default:
			starts := []int64{0, 0, 1, 2, n - 1, n, n + 1, -1, 1 << 31}
			lens := []int64{0, 1, 2, 2, 3, n, n + 1, -1, 255}
			st, ln := starts[r.IntN(len(starts))], lens[r.IntN(len(lens))]
			if nearValid {
				ln = []int64{1, 1, 2, 2, 3, n - filled, n - filled + 1}[r.IntN(7)]
				st = []int64{0, 0, filled - 1, filled, filled, filled + 1, n - ln, n - ln + 1, n - 1}[r.IntN(9)]
				if ln < 0 {
					ln = 1
				}
				if st < 0 {
					st = 0
				}
				filled = min(n, filled+ln)
			}
			cnt := ln
			if r.IntN(5) == 0 {
				cnt = ln + int64(r.IntN(3)) - 1
			}
			if cnt < 0 || cnt > 300 {
				cnt = int64(r.IntN(3))
			}
			chunk := []any{st, ln}
			for j := int64(0); j < cnt; j++ {
				name := fmt.Sprintf("m%d", r.IntN(6))
				if r.IntN(12) == 0 {
					name = ""
				}
				chunk = append(chunk, name)
			}
			kv("devmod:modules", chunk)
		}
	}
	more := r.IntN(2) == 0
	return enc([]any{more, kvs}), fmt.Sprintf("devmod-script#%d more=%v %s", ord, more, strings.Join(desc, " "))
}

// c10Enc is a minimal CBOR encoder for script values.
func c10Enc(v any) []byte {
	head := func(major byte, n uint64) []byte {
		switch {
		case n < 24:
			return []byte{major<<5 | byte(n)}
		case n < 1<<8:
			return []byte{major<<5 | 24, byte(n)}
		case n < 1<<16:
			return []byte{major<<5 | 25, byte(n >> 8), byte(n)}
		case n < 1<<32:
			return []byte{major<<5 | 26, byte(n >> 24), byte(n >> 16), byte(n >> 8), byte(n)}
		}
		return []byte{major<<5 | 27, byte(n >> 56), byte(n >> 48), byte(n >> 40), byte(n >> 32), byte(n >> 24), byte(n >> 16), byte(n >> 8), byte(n)}
	}
	switch x := v.(type) {
	case nil:
		return []byte{0xf6}
	case bool:
		if x {
			return []byte{0xf5}
		}
		return []byte{0xf4}
	case int64:
		if x < 0 {
			return head(1, uint64(-1-x))
		}
		return head(0, uint64(x))
	case string:
		return append(head(3, uint64(len(x))), x...)
	case []byte:
		return append(head(2, uint64(len(x))), x...)
	case []any:
		b := head(4, uint64(len(x)))
		for _, e := range x {
			b = append(b, c10Enc(e)...)
		}
		return b
	}
	panic(fmt.Sprintf("c10Enc: unsupported %T", v))
}

// c10Bomb returns hostile shapes: deep nesting, inflated lengths, huge heads.
func c10Bomb(i int) []byte {
	switch i % 10 {
	case 0: // 2 KiB nest of arrays each claiming 99 999 items
		var b []byte
		for k := 0; k < 400; k++ {
			b = append(b, 0x9a, 0x00, 0x01, 0x86, 0x9f)
		}
		return b
	case 1: // deep nesting of single-element arrays
		return append(bytes.Repeat([]byte{0x81}, 60000), 0x00)
	case 2: // byte string claiming 2^32-1 bytes
		return []byte{0x5a, 0xff, 0xff, 0xff, 0xff, 0x00}
	case 3: // byte string claiming 2^63 bytes
		return []byte{0x5b, 0x80, 0, 0, 0, 0, 0, 0, 0}
	case 4: // map claiming 2^31 pairs
		return []byte{0xba, 0x7f, 0xff, 0xff, 0xff, 0x01, 0x01}
	case 5: // deep tags
		return append(bytes.Repeat([]byte{0xd8, 0x12}, 30000), 0x80)
	case 6: // indefinite-length nesting
		return append(bytes.Repeat([]byte{0x9f}, 50000), 0xff)
	case 7: // array of 65535 empty arrays claimed, few present
		return []byte{0x99, 0xff, 0xff, 0x80, 0x80}
	case 8: // text string with huge claim
		return []byte{0x7b, 0x7f, 0xff, 0xff, 0xff, 0xff, 0xff, 0xff, 0xff, 'a'}
	default: // 64 KiB of nested maps
		return bytes.Repeat([]byte{0xa1, 0x01}, 32000)
	}
}

func c10Garbage(seed uint64, i int) []byte {
	r := rand.New(rand.NewPCG(seed, uint64(i)+1000))
	sizes := []int{0, 1, 2, 7, 64, 1000, 65535, 65536}
	n := sizes[i%len(sizes)]
	if i >= len(sizes) {
		n = r.IntN(65536)
	}
	b := make([]byte, n)
	for j := range b {
		b[j] = byte(r.UintN(256))
	}
	if i%3 == 1 && n > 4 { // plausible CBOR prefix followed by noise
		copy(b, []byte{0x84, 0x43, 0xa1, 0x01})
	}
	return b
}

// mutTransport is the rogue device: it alters the plaintext of one request
// before it is encrypted.
type mutTransport struct {
	inner   fdo.Transport
	msg     uint8
	occur   int
	seen    int
	mutate  func(orig []byte) []byte
	collect func(msg uint8, occur int, body []byte)
}

func (t *mutTransport) Send(ctx context.Context, msgType uint8, msg any, sess kex.Session) (uint8, io.ReadCloser, error) {
	if sess != nil && msgType >= 66 && msgType <= 70 {
		b, err := cbor.Marshal(msg)
		if err == nil {
			if t.collect != nil {
				t.collect(msgType, t.seenOf(msgType), b)
			}
			if msgType == t.msg {
				if t.seen == t.occur && t.mutate != nil {
					msg = cbor.RawBytes(t.mutate(b))
				}
				t.seen++
			}
		}
	}
	return t.inner.Send(ctx, msgType, msg, sess)
}

var _ = (*mutTransport).seenOf

func (t *mutTransport) seenOf(m uint8) int {
	if m == t.msg {
		return t.seen
	}
	return 0
}

// mutResponder is the rogue owner: it alters the plaintext of one response
// before the handler encrypts it.
type mutResponder struct {
	inner   protocol.Responder
	msg     uint8
	occur   int
	seen    *int
	mutate  func(orig []byte) []byte
	collect func(msg uint8, occur int, body []byte)
	counts  map[uint8]int
}

func (r *mutResponder) Respond(ctx context.Context, msgType uint8, msg io.Reader) (uint8, any) {
	rt, resp := r.inner.Respond(ctx, msgType, msg)
	if rt >= 65 && rt <= 71 {
		b, err := cbor.Marshal(resp)
		if err == nil {
			if r.collect != nil {
				r.collect(rt, r.counts[rt], b)
			}
			r.counts[rt]++
			if rt == r.msg {
				if *r.seen == r.occur && r.mutate != nil {
					resp = cbor.RawBytes(r.mutate(b))
				}
				*r.seen++
			}
		}
	}
	return rt, resp
}
func (r *mutResponder) HandleError(ctx context.Context, e protocol.ErrorMessage) {
	r.inner.HandleError(ctx, e)
}
func (r *mutResponder) CryptSession(ctx context.Context) (kex.Session, error) {
	return r.inner.(interface {
		CryptSession(context.Context) (kex.Session, error)
	}).CryptSession(ctx)
}

func c10Run(env *Env, pl *C10Plan, collect map[c10Pos][]byte, baseAlloc uint64) uint64 {
	o := env.Out
	cfg := keyCfgByName(pl.Key, pl.Enc)
	ctx := context.Background()
	sqlNodes := map[string]bool{}
	if pl.Sql {
		sqlNodes = map[string]bool{"mfg": true, "rv": true, "owner1": true}
	}
	s, cleanup := NewStdSql(nil, cfg, sqlNodes)
	defer cleanup()
	s.Net.MaxMsgs = 600
	if pl.Debug || os.Getenv("VERIF_C10_DEBUG") != "" {
		o.Fault("debug-logging-on")
		old := slog.Default()
		slog.SetDefault(slog.New(slog.NewTextHandler(io.Discard, &slog.HandlerOptions{Level: slog.LevelDebug})))
		defer slog.SetDefault(old)
	}
	// rendezvous directives with every kind of value (text, integer, nested
	// array) so that the sweeps reach the directive parser through DI and TO2
	for _, name := range []string{"mfg", "owner1", "owner2"} {
		if n := s.Nodes[name]; n != nil {
			n.RvInfo = [][]protocol.RvInstruction{{
				{Variable: protocol.RVDns, Value: c10Enc("rv.example")},
				{Variable: protocol.RVDevPort, Value: c10Enc(int64(8041))},
				{Variable: protocol.RVExtRV, Value: c10Enc([]any{"mech", int64(1)})},
				{Variable: protocol.RVDelaysec, Value: c10Enc(int64(5))},
			}}
		}
	}
	if pl.Partial {
		for name, roles := range map[string][]string{"mfg": {"DI"}, "rv": {"TO0", "TO1"}, "owner1": {"TO2"}, "owner2": {"TO2"}} {
			if n := s.Nodes[name]; n != nil {
				n.Roles = roles
			}
		}
	}
	rec := &ModRecorder{}
	o1 := s.Nodes["owner1"]
	o1.Mods = &ModSM{Factory: PingFactory(o1, rec, [][]byte{[]byte("first-owner-message"), bytes.Repeat([]byte{0x5a}, 300)})}
	pos := c10Pos{pl.Proto, pl.Phase, pl.Msg, pl.Occur, pl.Wire}
	var ms0, msWin runtime.MemStats
	winClosed := false
	tampered := false
	var tamperLen int
	var desc string

	mutate := func(orig []byte) []byte {
		tampered = true
		runtime.ReadMemStats(&ms0)
		var nb []byte
		switch pl.Kind {
		case "mut":
			muts := AllMutations(orig)
			if len(muts) == 0 {
				return orig
			}
			m := muts[pl.Ord%len(muts)]
			desc = m.String()
			nb = m.ApplyAny()
		case "garbage":
			nb = c10Garbage(pl.Seed, pl.Ord)
			desc = fmt.Sprintf("garbage#%d(%d bytes)", pl.Ord, len(nb))
		case "bomb":
			nb = c10Bomb(pl.Ord)
			desc = fmt.Sprintf("bomb#%d", pl.Ord)
		case "script":
			nb, desc = c10DevmodScript(pl.Seed, pl.Ord)
		default:
			nb = orig
		}
		tamperLen = max(len(nb), len(orig))
		return nb
	}

	setupFail := func(step string, err error) {
		o.Class = "setup-failed:" + step
		o.Violate("C10", "honest-setup", step+"|"+pl.Key, "honest preparation step %s failed for %+v: %v", step, *pl, err)
	}
	defer func() {
		env.Logf("plan=%+v class=%s", *pl, o.Class)
		for _, ev := range s.Net.Log {
			env.Logf("%d %s>%s %s %d/%d %d %s %v", ev.Seq, ev.From, ev.To, ev.Phase, ev.MsgType, ev.RespType, ev.Status, ev.BodyHash, ev.Faults)
		}
		for k, v := range s.Net.Faults {
			o.Faults[k] += v
		}
	}()

	// counters per (phase,msg) for occurrence matching on the wire
	occ := map[string]int{}
	otherTok := ""
	s.Net.AddHook(func(ev *NetEvent) {
		if tampered && !winClosed {
			// first event after the corrupted message was handed over: the
			// receiver has finished handling it
			runtime.ReadMemStats(&msWin)
			winClosed = true
		}
		mt := int(ev.MsgType)
		if ev.Phase == "resp" {
			mt = ev.RespType
			if ev.Status != 200 {
				return
			}
		}
		if ev.Phase == "resp" && ev.RespType == 11 && otherTok == "" {
			otherTok = ev.Token
		}
		k := fmt.Sprintf("%s/%d", ev.Phase, mt)
		n := occ[k]
		occ[k]++
		p2 := c10Pos{pl.Proto, ev.Phase, mt, n, false}
		if _, enc := tunnelMsg(ev); enc {
			p2.Wire = true
		}
		if collect != nil && !p2.inTunnel() {
			if _, ok := collect[p2]; !ok && protoOf(mt) == pl.Proto {
				collect[p2] = append([]byte(nil), ev.Body...)
			}
		}
		if pl.Kind == "store" {
			// one call of the serving node's state backend fails while this
			// protocol runs (armed at its first request)
			if !tampered && ev.Phase == "req" && protoOf(mt) == pl.Proto {
				if node := s.Nodes[ev.To]; node != nil && node.Sim != nil {
					m := c10StoreMethods[pl.Ord%len(c10StoreMethods)]
					nth := 1 + (pl.Ord/len(c10StoreMethods))%3
					node.Sim.FailAt[m] = node.Sim.Calls[m] + nth
					tampered = true
					runtime.ReadMemStats(&ms0)
					desc = fmt.Sprintf("state backend of %s fails call %d of %s", ev.To, nth, m)
					ev.Fault("store-error")
				}
			}
			return
		}
		if pl.Kind == "none" || tampered || pos.inTunnel() || ev.Phase != pl.Phase || mt != pl.Msg || n != pl.Occur || protoOf(mt) != pl.Proto || p2.Wire != pl.Wire {
			return
		}
		if pl.Kind == "http" {
			tampered = true
			runtime.ReadMemStats(&ms0)
			tamperLen = len(ev.Body)
			desc = c10HTTPFaults[pl.Ord%len(c10HTTPFaults)]
			c10HTTP(desc, ev, otherTok)
			ev.Fault("http:" + desc)
			return
		}
		if pl.Kind == "dup" {
			tampered = true
			runtime.ReadMemStats(&ms0)
			tamperLen = len(ev.Body)
			desc = "request delivered twice"
			ev.Dup = true
			ev.Fault("dup_req")
			return
		}
		ev.Body = mutate(ev.Body)
		ev.Fault(pl.Kind)
	})

	// rogue authenticated peers for in-tunnel positions
	var devTr fdo.Transport
	if pl.Proto == "TO2" {
		mt := &mutTransport{inner: s.Transport("dev1", "owner1"), msg: 0}
		seen := 0
		mr := func(r protocol.Responder) protocol.Responder {
			return &mutResponder{inner: r, seen: &seen, counts: map[uint8]int{}}
		}
		if collect != nil {
			mt.collect = func(m uint8, occur int, b []byte) {
				k := c10Pos{"TO2", "req", int(m), occur, false}
				if m == 68 {
					k.Occur = occ["tap68"]
					occ["tap68"]++
				}
				if _, ok := collect[k]; !ok {
					collect[k] = append([]byte(nil), b...)
				}
			}
			mr = func(r protocol.Responder) protocol.Responder {
				return &mutResponder{inner: r, seen: &seen, counts: map[uint8]int{}, collect: func(m uint8, occur int, b []byte) {
					k := c10Pos{"TO2", "resp", int(m), occur, false}
					if _, ok := collect[k]; !ok {
						collect[k] = append([]byte(nil), b...)
					}
				}}
			}
		}
		if pos.inTunnel() && pl.Kind != "none" {
			if pl.Phase == "req" {
				mt.msg, mt.occur = uint8(pl.Msg), pl.Occur
				mt.mutate = func(b []byte) []byte {
					s.Net.mu.Lock()
					s.Net.Faults[pl.Kind+"-in-tunnel"]++
					s.Net.mu.Unlock()
					return mutate(b)
				}
			} else {
				mr = func(r protocol.Responder) protocol.Responder {
					return &mutResponder{inner: r, msg: uint8(pl.Msg), occur: pl.Occur, seen: &seen, counts: map[uint8]int{}, mutate: func(b []byte) []byte {
						s.Net.mu.Lock()
						s.Net.Faults[pl.Kind+"-in-tunnel"]++
						s.Net.mu.Unlock()
						return mutate(b)
					}}
				}
			}
		}
		o1.WrapTO2 = mr
		devTr = mt
	}

	// --- drive the protocol ---
	var ms1 runtime.MemStats
	runtime.ReadMemStats(&ms0)
	allocStart := ms0.TotalAlloc
	var d1 *Device
	var perr error
	switch pl.Proto {
	case "DI":
		d1 = s.NewDevice("dev1", "dev1", cfg)
		if pl.Kind == "mfgkey" {
			mk := c10MfgKeys[pl.Ord%len(c10MfgKeys)]
			// only devices of the 256 class may leave the HMAC-SHA384 engine out
			d1.NoHmac384 = pl.Ord >= len(c10MfgKeys) && (cfg.Fam() == P256 || cfg.Fam() == RSA2048)
			mn := s.Nodes["mfg"]
			if mk.Bits != 2048 && mk.Bits != 3072 && mk.Bits != 0 {
				// the peer's key is the odd one: a device that presents a certificate
				// request for an RSA key of a size the specification does not name
				if k, err := rsa.GenerateKey(crand.Reader, mk.Bits); err == nil {
					d1.Key = &KeyEntry{Role: "dev1", Fam: d1.Key.Fam, Key: k, Cert: d1.Key.Cert, Chain: d1.Key.Chain}
				}
			} else {
				mn.MfgKeyOverride = func(protocol.KeyType) (protocol.KeyType, int) { return mk.T, mk.Bits }
				mn.Rebuild()
			}
			tampered = true
			runtime.ReadMemStats(&ms0)
			desc = fmt.Sprintf("manufacturer answers with a key of type %d/%d bits, device without HMAC-SHA384 engine: %v", mk.T, mk.Bits, d1.NoHmac384)
			if mk.Bits != 2048 && mk.Bits != 3072 && mk.Bits != 0 {
				desc = fmt.Sprintf("device presents a certificate request for an RSA key of %d bits", mk.Bits)
			}
		}
		perr = s.DI(ctx, d1, "mfg")
	case "TO0", "TO1", "TO2":
		// preceding honest steps (hooks ignore other protocols' messages)
		var err error
		saveKind := pl.Kind
		d1, _, err = s.Provision(ctx, "dev1", "dev1", "mfg", "owner1")
		if err != nil {
			if tampered {
				break
			}
			setupFail("provision", err)
			return 0
		}
		_ = saveKind
		if pl.Proto == "TO0" {
			_, perr = s.TO0(ctx, "owner1", "rv", d1.Cred.GUID, 3600)
			break
		}
		if _, err := s.TO0(ctx, "owner1", "rv", d1.Cred.GUID, 3600); err != nil {
			setupFail("TO0", err)
			return 0
		}
		to1d, err := s.TO1(ctx, d1, "rv")
		if pl.Proto == "TO1" {
			perr = err
			break
		}
		if err != nil {
			setupFail("TO1", err)
			return 0
		}
		kxs, cph := defaultKex(cfg), kex.A128GcmCipher
		if pl.Kind == "suite" {
			// the peer chooses the suites: every identifier the tables of the
			// library know about and plenty they do not
			kxs = kex.Suite(c10KexNames[pl.Ord%len(c10KexNames)])
			cph = kex.CipherSuiteID(c10CipherIDs[(pl.Ord/len(c10KexNames))%len(c10CipherIDs)])
			tampered = true
			runtime.ReadMemStats(&ms0)
			desc = fmt.Sprintf("device configured with key exchange %q and cipher suite %d", kxs, cph)
		}
		_, perr = s.TO2(ctx, d1, "owner1", to1d, TO2Opts{Kex: kxs, Cipher: cph, Transport: devTr,
			Modules: map[string]serviceinfo.DeviceModule{"ping": &PongDevice{Mod: "ping", Rec: rec}}})
	}
	// what a device application does next with the credential the peer handed
	// it (the example client does exactly this before TO1): interpret the
	// rendezvous directives
	if d1 != nil && d1.Cred != nil && (pl.Proto == "DI" || pl.Proto == "TO2") {
		rv := d1.Cred.RvInfo
		_, _ = s.Net.SafeCall("app:ParseDeviceRvInfo", func() error {
			protocol.ParseDeviceRvInfo(rv)
			protocol.ParseOwnerRvInfo(rv)
			return nil
		})
	}
	runtime.ReadMemStats(&ms1)
	total := ms1.TotalAlloc - allocStart

	if pl.Kind == "none" {
		if perr != nil {
			o.Class = "honest-failed"
			o.Violate("C10", "honest-run-must-succeed", pl.Proto+"|"+pl.Key, "honest %s failed: %v", pl.Proto, perr)
			return total
		}
		o.Class = "honest-ok"
		o.Sample = map[string]any{"proto": pl.Proto, "alloc": total}
		return total
	}
	if !tampered {
		o.Class = "noop"
		return total
	}
	o.Nontrivial = true
	if !winClosed {
		msWin = ms1
	}
	delta := msWin.TotalAlloc - ms0.TotalAlloc
	bound := 2*baseAlloc + 4<<20 + 64*uint64(tamperLen)
	o.Sample = map[string]any{"pos": fmt.Sprintf("%s %s/%d#%d", pl.Proto, pl.Phase, pl.Msg, pl.Occur), "corruption": desc, "client_err": fmt.Sprint(perr), "alloc_after_tamper": delta}
	for _, pr := range s.Net.Panics {
		o.Class = "PANIC"
		where := "server"
		if strings.HasPrefix(pr.Where, "client:") {
			where = "client"
		}
		o.Violate("C10", "panic", pr.Frame, "%s panic at %s after %s %s/%d#%d was corrupted by %s: %s", where, pr.Frame, pl.Proto, pl.Phase, pl.Msg, pl.Occur, desc, pr.Value)
	}
	if o.Deadlock {
		o.Violate("C10", "hang", fmt.Sprintf("%s|%s/%d", pl.Proto, pl.Phase, pl.Msg), "deadlock after corruption %s", desc)
	}
	if s.Net.Exhausted {
		o.Probe("message-budget-exhausted")
	}
	if baseAlloc > 0 && delta > bound {
		o.Violate("C10", "allocation", fmt.Sprintf("%s|%s/%d|%s", pl.Proto, pl.Phase, pl.Msg, allocKind(pl, desc)), "allocated %d bytes after a %d-byte corrupted message (%s), bound %d", delta, tamperLen, desc, bound)
	}
	// a server that was handed a corrupted request answers with an FDO error
	// message (or a normal response when the corruption was neutral)
	if pl.Phase == "req" && !pos.inTunnel() {
		for _, ev := range s.Net.Log {
			if ev.Phase == "resp" && len(ev.Faults) == 0 && ev.Status != 200 && ev.Status != 500 && int(ev.MsgType) == pl.Msg && pl.Kind != "http" && ev.Status != 503 {
				o.Probe(fmt.Sprintf("non-fdo-answer:%d", ev.Status))
			}
		}
	}
	if o.Class == "" {
		if perr != nil {
			o.Class = "client-error"
		} else {
			o.Class = "neutral"
		}
	}
	return total
}

func allocKind(pl *C10Plan, desc string) string {
	if pl.Kind == "mut" {
		f := strings.Fields(desc)
		return f[len(f)-1]
	}
	return pl.Kind
}

func protoOf(msg int) string {
	switch {
	case msg >= 10 && msg <= 13:
		return "DI"
	case msg >= 20 && msg <= 23:
		return "TO0"
	case msg >= 30 && msg <= 33:
		return "TO1"
	case msg >= 60 && msg <= 71:
		return "TO2"
	}
	return ""
}

// c10HTTP applies HTTP-level damage to a message in flight.
func c10HTTP(kind string, ev *NetEvent, otherTok string) {
	neg := int64(-1)
	huge := int64(1) << 40
	short := int64(len(ev.Body) / 2)
	switch kind {
	case "no-content-length":
		ev.ContentLength = &neg
	case "huge-content-length", "resp-huge-content-length":
		ev.ContentLength = &huge
	case "short-content-length":
		ev.ContentLength = &short
	case "bad-auth-scheme":
		ev.Token = "Basic " + strings.TrimPrefix(ev.Token, "Bearer ")
		if ev.Token == "Basic " {
			ev.Token = "Basic abc"
		}
	case "garbage-token":
		ev.Token = "Bearer !!!not/base64==\x7f"
	case "other-protocol-token":
		if otherTok != "" {
			ev.Token = otherTok
		} else {
			ev.Token = "Bearer AAAA"
		}
	case "method-get":
		ev.Method = "GET"
	case "path-unknown-msg":
		ev.Path = "/fdo/101/msg/99"
	case "path-nested":
		ev.Path = ev.Path + "/x"
	case "path-not-number":
		ev.Path = "/fdo/101/msg/abc"
	case "msg-255-garbage":
		ev.Path = "/fdo/101/msg/255"
		ev.Body = []byte{0xff, 0x00, 0x83}
	case "msg-255-valid":
		ev.Path = "/fdo/101/msg/255"
		b, _ := cbor.Marshal(protocol.ErrorMessage{Code: 100, PrevMsgType: ev.MsgType, ErrString: "x"})
		ev.Body = b
	case "empty-body":
		ev.Body = nil
	case "msg-255-prev-10", "msg-255-prev-20", "msg-255-prev-30", "msg-255-prev-60", "msg-255-prev-0", "msg-255-prev-99":
		// an error report that names a message of another (possibly unserved
		// or unknown) protocol
		var prev int
		fmt.Sscanf(strings.TrimPrefix(kind, "msg-255-prev-"), "%d", &prev)
		ev.Path = "/fdo/101/msg/255"
		b, _ := cbor.Marshal(protocol.ErrorMessage{Code: 100, PrevMsgType: uint8(prev), ErrString: "x"})
		ev.Body = b
	case "path-other-proto-10", "path-other-proto-20", "path-other-proto-30", "path-other-proto-60":
		ev.Path = "/fdo/101/msg/" + strings.TrimPrefix(kind, "path-other-proto-")
	case "resp-bad-msgtype-header":
		ev.RespType = 999
	case "resp-status-418":
		ev.Status = 418
	case "resp-no-content-type":
		ev.ContentType = ""
		ev.Status = 500
	}
}
