package fdosim

import (
	"bytes"
	"context"
	"fmt"
	"io"
	"strings"
	"sync"
	"testing"
	"testing/synctest"

	fdo "github.com/fido-device-onboard/go-fdo"
	"github.com/fido-device-onboard/go-fdo/cbor"
	"github.com/fido-device-onboard/go-fdo/kex"
	"github.com/fido-device-onboard/go-fdo/protocol"
	"github.com/fido-device-onboard/go-fdo/serviceinfo"
)

// C05 — TO2 messages after ProveDevice are confidential and tamper-evident.

type C05Plan struct {
	Seed   uint64 `json:"seed"`
	Kex    string `json:"kex"`
	Cipher string `json:"cipher"`
	Fault  string `json:"fault"` // none | bitflip | <downgrade name>
	Dir    string `json:"dir,omitempty"`
	Index  int    `json:"index,omitempty"`
	Pos    int    `json:"pos,omitempty"` // bit position for bitflip
}

// TunnelTap records the plaintext each side hands to / obtains from the tunnel.
type TunnelTap struct {
	mu   sync.Mutex
	Sent map[string][][]byte
	Recv map[string][][]byte
	Msg  map[string][]int
}

func NewTunnelTap() *TunnelTap {
	return &TunnelTap{Sent: map[string][][]byte{}, Recv: map[string][][]byte{}, Msg: map[string][]int{}}
}

func (t *TunnelTap) sent(dir string, msg int, b []byte) {
	t.mu.Lock()
	t.Sent[dir] = append(t.Sent[dir], b)
	t.Msg[dir] = append(t.Msg[dir], msg)
	t.mu.Unlock()
}

func (t *TunnelTap) recv(dir string, b []byte) {
	t.mu.Lock()
	t.Recv[dir] = append(t.Recv[dir], b)
	t.mu.Unlock()
}

type tapResponder struct {
	inner protocol.Responder
	tap   *TunnelTap
}

func (r tapResponder) Respond(ctx context.Context, msgType uint8, msg io.Reader) (uint8, any) {
	if msgType >= 66 && msgType <= 70 {
		b, _ := io.ReadAll(msg)
		r.tap.recv("d2o", b)
		msg = bytes.NewReader(b)
	}
	rt, resp := r.inner.Respond(ctx, msgType, msg)
	if rt >= 65 && rt <= 71 {
		b, _ := cbor.Marshal(resp)
		r.tap.sent("o2d", int(rt), b)
	}
	return rt, resp
}

func (r tapResponder) HandleError(ctx context.Context, e protocol.ErrorMessage) {
	r.inner.HandleError(ctx, e)
}

func (r tapResponder) CryptSession(ctx context.Context) (kex.Session, error) {
	return r.inner.(interface {
		CryptSession(context.Context) (kex.Session, error)
	}).CryptSession(ctx)
}

type tapTransport struct {
	inner fdo.Transport
	tap   *TunnelTap
}

func (t tapTransport) Send(ctx context.Context, msgType uint8, msg any, sess kex.Session) (uint8, io.ReadCloser, error) {
	if sess != nil && msgType >= 66 && msgType <= 70 {
		b, _ := cbor.Marshal(msg)
		t.tap.sent("d2o", int(msgType), b)
	}
	rt, r, err := t.inner.Send(ctx, msgType, msg, sess)
	if err != nil {
		return rt, r, err
	}
	if sess != nil && rt >= 65 && rt <= 71 {
		b, _ := io.ReadAll(r)
		_ = r.Close()
		t.tap.recv("o2d", b)
		return rt, io.NopCloser(bytes.NewReader(b)), nil
	}
	return rt, r, nil
}

// values that only ever travel inside the tunnel; none of them may show up in
// any clear-text byte on the wire (error messages included)
var c05Devmod = serviceinfo.Devmod{Os: "CANARY-os-7f3a", Arch: "CANARY-arch-91c2", Version: "CANARY-ver-55d0", Device: "CANARY-dev-0b7e", FileSep: ";", Bin: "CANARY-bin-3c11"}
var c05Canaries = [][]byte{[]byte("CANARY-"), []byte("owner-secret-configuration"), []byte("Z9Z9Z9Z9Z9Z9Z9Z9")}

var c05Downgrades = []string{
	"strip-mac", "strip-mac-flip", "swap-tag", "drop-iv", "short-iv", "long-iv", "empty-iv", "iv-text",
	"alter-alg", "alg-to-other-map", "drop-alg", "empty-ct", "trunc-ct", "one-byte-ct", "null-ct", "ext-ct",
	"plaintext", "other-session", "mac-flip", "mac-trunc", "mac-alg", "wrap-in-mac", "replay-earlier",
	// an AEAD message relabelled as the unauthenticated counter mode of the same
	// key size: GCM encrypts with CTR starting at nonce||00000002, so dropping
	// the tag and announcing AES-CTR with that IV decrypts under the same key
	"gcm-as-ctr", "gcm-as-ctr-flip", "gcm-as-ctr-protected",
}

type c05 struct {
	plans map[string][]C05Plan
}

func init() { Register(&c05{plans: map[string][]C05Plan{}}) }

func (p *c05) ID() string    { return "C05" }
func (p *c05) Level() string { return "fault_enumeration" }
func (p *c05) NewPlan() any  { return &C05Plan{} }
func (p *c05) Rule() string {
	return "for each of the 42 tunnels (6 kex x 7 cipher suites; key types chosen so that the kex is legal): honest run with wire monitors (COSE tag and alg per suite, IV length and freshness, no tap plaintext on the wire); the complete list of structural downgrades applied to the first and a later encrypted message in both directions; bit flips at spread positions (quick) / at every byte (thorough) of every encrypted message in both directions; taps on both ends compare what the receiver obtained with what the sender protected; non-trivial = the adversary altered a delivered encrypted message; distinct = distinct (fault, outcome, log hash)"
}
func (p *c05) Exhaustive(string) bool { return false }
func (p *c05) Components() map[string][]string {
	return map[string][]string{
		"real": {"kex.SessionCrypter Encrypt/Decrypt", "cose Encrypt0/Mac0", "http.Handler (server-side decrypt/encrypt)", "http.Transport (client-side)", "fdo.TO2 / TO2Server", "all six key exchanges"},
		"stub": {"network man-in-the-middle", "plaintext taps (wrapping Responder / Transport)", "simstore", "clock", "crypto randomness", "ping modules"},
	}
}
func (p *c05) Assumptions() []string {
	return []string{
		"replay of an earlier ciphertext of the same session and direction is not judged (TO2 has no sequence numbers); it is counted by a probe",
		"a recovered panic of the receiver counts as rejection here and is reported under C10",
		"COSE algorithm ids, IV lengths and tag numbers per suite are transcribed from RFC 9053/9459 and FDO 1.1 §3.5",
	}
}

func tunnelKey(kexName string) KeyCfg {
	var name string
	switch kexName {
	case "ECDH256":
		name = "P-256"
	case "ECDH384":
		name = "P-384"
	case "DHKEXid14", "ASYMKEX2048":
		name = "RSA2048RESTR"
	case "DHKEXid15":
		name = "RSA-PKCS-3072"
	default:
		name = "RSA-PSS-3072"
	}
	return keyCfgByName(name, uint8(protocol.X509KeyEnc))
}

func c05Seed(seed uint64, ti int) uint64 { return seed*3571 + uint64(ti)*97 + 13 }

type c05Base struct {
	lens map[string][]int // body length per (dir, index)
}

func (p *c05) Prepare(t *testing.T, tier string, seed uint64) {
	if _, ok := p.plans[tier]; ok {
		return
	}
	var plans []C05Plan
	ti := 0
	for _, kx := range KexNames {
		for _, c := range CipherSpecs {
			base := C05Plan{Seed: c05Seed(seed, ti), Kex: kx, Cipher: c.Name, Fault: "none"}
			ti++
			bl := &c05Base{lens: map[string][]int{}}
			_, restore := SeedCrypto(base.Seed)
			synctest.Test(t, func(t *testing.T) {
				c05Run(&Env{T: t, Out: &Outcome{Faults: map[string]int{}, Probes: map[string]int{}}}, &base, bl)
			})
			restore()
			plans = append(plans, base)
			// one failing call of the owner's state backend during TO2 (quick: three
			// tunnels, first and second call of each method)
			if tier == "thorough" || ti%14 == 1 {
				for _, m := range c03Methods {
					for nth := 1; nth <= 2; nth++ {
						pl := base
						pl.Fault, pl.Dir, pl.Index = "store-error:"+m, "owner", nth
						plans = append(plans, pl)
					}
				}
			}
			// an on-path peer first injects a corrupted copy of a device message with
			// the session's token (with and without hanging up when the server starts
			// to answer), then lets the genuine message through: the rejected message
			// must have ended the run (state backend: sqlite, which honours contexts)
			for _, f := range []string{"inject-flip-then-forward", "inject-flip-hangup-then-forward", "inject-trunc-then-forward", "inject-trunc1-then-forward", "inject-empty-then-forward", "inject-garbage-then-forward"} {
				for _, idx := range []int{0, 1} {
					pl := base
					pl.Fault, pl.Dir, pl.Index = f, "d2o", idx
					plans = append(plans, pl)
				}
			}
			for _, dir := range []string{"d2o", "o2d"} {
				n := len(bl.lens[dir])
				for idx := 0; idx < n; idx++ {
					// downgrades on the first, second and last message of each direction
					if idx == 0 || idx == 1 || idx == n-1 {
						for _, dg := range c05Downgrades {
							if c.AEAD && (dg == "strip-mac" || dg == "strip-mac-flip" || dg == "mac-flip" || dg == "mac-trunc" || dg == "mac-alg") {
								continue
							}
							if !c.AEAD && dg == "wrap-in-mac" {
								continue
							}
							if dg == "replay-earlier" && idx == 0 {
								continue
							}
							pl := base
							pl.Fault, pl.Dir, pl.Index = dg, dir, idx
							plans = append(plans, pl)
						}
					}
					L := bl.lens[dir][idx]
					var positions []int
					if tier == "thorough" {
						for b := 0; b < L; b++ {
							positions = append(positions, b*8+(b%8))
						}
					} else {
						seen := map[int]bool{}
						for _, b := range []int{0, 1, 2, 3, 5, 8, 12, 20, L / 3, L / 2, 2 * L / 3, L - 20, L - 9, L - 2, L - 1} {
							if b >= 0 && b < L && !seen[b] {
								seen[b] = true
								positions = append(positions, b*8+(b%8))
							}
						}
					}
					for _, pos := range positions {
						pl := base
						pl.Fault, pl.Dir, pl.Index, pl.Pos = "bitflip", dir, idx, pos
						plans = append(plans, pl)
					}
				}
			}
		}
	}
	p.plans[tier] = plans
}

func (p *c05) NumPlans(tier string) int { return len(p.plans[tier]) }
func (p *c05) Plan(tier string, seed uint64, i int) any {
	pl := p.plans[tier][i]
	return &pl
}
func (p *c05) Shrink(any) []any        { return nil }
func (p *c05) Exec(env *Env, plan any) { c05Run(env, plan.(*C05Plan), nil) }

// c05Downgrade rewrites an encrypted body; ok=false when not applicable.
func c05Downgrade(kind string, body []byte, spec CipherSpec, plain []byte, other []byte, earlier []byte) ([]byte, bool) {
	root, err := ParseCBOR(body)
	if err != nil || root.Major != 6 {
		return nil, false
	}
	// locate the Encrypt0 array (possibly inside a Mac0 payload)
	var mac, enc *CNode
	if root.Arg == 17 {
		mac = root.Kids[0]
		if len(mac.Kids) != 4 || mac.Kids[2].Emb == nil {
			return nil, false
		}
		enc = mac.Kids[2].Emb
	} else {
		enc = root.Kids[0]
	}
	if enc.Major != 4 || len(enc.Kids) != 3 {
		return nil, false
	}
	unprot := enc.Kids[1]
	ivNode := unprot.MapGet(5)
	ct := enc.Kids[2]
	retag := func(tag uint64, inner *CNode) []byte {
		return (&CNode{Major: 6, Arg: tag, Kids: []*CNode{inner}}).Encode(nil)
	}
	setBytes := func(n *CNode, b []byte) { n.Bytes, n.Emb = b, nil }
	algIn := func(m *CNode) (*CNode, int) {
		if m == nil {
			return nil, -1
		}
		for i := 0; i+1 < len(m.Kids); i += 2 {
			if v, ok := m.Kids[i].Int(); ok && v == 1 {
				return m.Kids[i+1], i
			}
		}
		return nil, -1
	}
	switch kind {
	case "strip-mac":
		if mac == nil {
			return nil, false
		}
		return retag(16, enc), true
	case "strip-mac-flip":
		if mac == nil || len(ct.Bytes) == 0 {
			return nil, false
		}
		b := append([]byte(nil), ct.Bytes...)
		b[len(b)-1] ^= 0x01
		setBytes(ct, b)
		return retag(16, enc), true
	case "swap-tag":
		if root.Arg == 16 {
			root.Arg = 17
		} else {
			root.Arg = 16
		}
		return root.Encode(nil), true
	case "drop-iv", "short-iv", "long-iv", "empty-iv", "iv-text":
		if ivNode == nil {
			return nil, false
		}
		switch kind {
		case "drop-iv":
			for i := 0; i+1 < len(unprot.Kids); i += 2 {
				if v, ok := unprot.Kids[i].Int(); ok && v == 5 {
					unprot.Kids = append(unprot.Kids[:i:i], unprot.Kids[i+2:]...)
					break
				}
			}
		case "short-iv":
			setBytes(ivNode, ivNode.Bytes[:len(ivNode.Bytes)-1])
		case "long-iv":
			setBytes(ivNode, append(append([]byte(nil), ivNode.Bytes...), 0))
		case "empty-iv":
			setBytes(ivNode, nil)
		case "iv-text":
			ivNode.Major = 3
		}
		return root.Encode(nil), true
	case "alter-alg", "drop-alg", "alg-to-other-map":
		var holder *CNode
		a, idx := algIn(enc.Kids[0].Emb)
		holder = enc.Kids[0].Emb
		if a == nil {
			a, idx = algIn(unprot)
			holder = unprot
		}
		if a == nil {
			return nil, false
		}
		switch kind {
		case "alter-alg":
			other := CipherSpecs[0]
			for _, c := range CipherSpecs {
				if c.AEAD == spec.AEAD && c.EncAlg != spec.EncAlg {
					other = c
					break
				}
			}
			if other.EncAlg >= 0 {
				*a = CNode{Major: 0, Arg: uint64(other.EncAlg)}
			} else {
				*a = CNode{Major: 1, Arg: uint64(-1 - other.EncAlg)}
			}
		case "drop-alg":
			holder.Kids = append(holder.Kids[:idx:idx], holder.Kids[idx+2:]...)
		case "alg-to-other-map":
			k, v := holder.Kids[idx], holder.Kids[idx+1]
			holder.Kids = append(holder.Kids[:idx:idx], holder.Kids[idx+2:]...)
			if holder == unprot {
				if enc.Kids[0].Emb == nil {
					enc.Kids[0].Emb = &CNode{Major: 5}
				}
				enc.Kids[0].Emb.Kids = append(enc.Kids[0].Emb.Kids, k, v)
			} else {
				unprot.Kids = append(unprot.Kids, k, v)
				if len(holder.Kids) == 0 {
					enc.Kids[0].Emb, enc.Kids[0].Bytes = nil, nil
				}
			}
		}
		return root.Encode(nil), true
	case "gcm-as-ctr", "gcm-as-ctr-flip", "gcm-as-ctr-protected":
		if !spec.AEAD || mac != nil || ivNode == nil || len(ivNode.Bytes) != 12 || len(ct.Bytes) < 17 {
			return nil, false
		}
		ctrAlg := map[int]int64{16: -65534, 24: -65533, 32: -65532}[spec.KeyLen] // A128CTR, A192CTR, A256CTR (RFC 9459)
		algNode := &CNode{Major: 1, Arg: uint64(-1 - ctrAlg)}
		key1 := &CNode{Major: 0, Arg: 1}
		iv := append(append([]byte(nil), ivNode.Bytes...), 0, 0, 0, 2)
		body := append([]byte(nil), ct.Bytes[:len(ct.Bytes)-16]...)
		if kind == "gcm-as-ctr-flip" {
			body[len(body)/2] ^= 0x01
		}
		setBytes(ct, body)
		setBytes(ivNode, iv)
		// remove alg wherever it is, then announce the counter mode
		for _, m := range []*CNode{enc.Kids[0].Emb, unprot} {
			if _, idx := algIn(m); idx >= 0 {
				m.Kids = append(m.Kids[:idx:idx], m.Kids[idx+2:]...)
			}
		}
		if kind == "gcm-as-ctr-protected" {
			if enc.Kids[0].Emb == nil {
				enc.Kids[0].Emb = &CNode{Major: 5}
			}
			enc.Kids[0].Emb.Kids = append(enc.Kids[0].Emb.Kids, key1, algNode)
		} else {
			if enc.Kids[0].Emb != nil && len(enc.Kids[0].Emb.Kids) == 0 {
				enc.Kids[0].Emb, enc.Kids[0].Bytes = nil, nil
			}
			unprot.Kids = append(unprot.Kids, key1, algNode)
		}
		return root.Encode(nil), true
	case "empty-ct":
		setBytes(ct, nil)
		return root.Encode(nil), true
	case "trunc-ct":
		if len(ct.Bytes) < 2 {
			return nil, false
		}
		setBytes(ct, ct.Bytes[:len(ct.Bytes)-1])
		return root.Encode(nil), true
	case "one-byte-ct":
		setBytes(ct, []byte{0x42})
		return root.Encode(nil), true
	case "ext-ct":
		setBytes(ct, append(append([]byte(nil), ct.Bytes...), 0x00))
		return root.Encode(nil), true
	case "null-ct":
		*ct = CNode{Major: 7, Arg: 22}
		return root.Encode(nil), true
	case "plaintext":
		if plain == nil {
			return nil, false
		}
		return plain, true
	case "other-session":
		if other == nil {
			return nil, false
		}
		return other, true
	case "replay-earlier":
		if earlier == nil {
			return nil, false
		}
		return earlier, true
	case "mac-flip", "mac-trunc", "mac-alg":
		if mac == nil {
			return nil, false
		}
		switch kind {
		case "mac-flip":
			b := append([]byte(nil), mac.Kids[3].Bytes...)
			b[0] ^= 0x80
			setBytes(mac.Kids[3], b)
		case "mac-trunc":
			setBytes(mac.Kids[3], mac.Kids[3].Bytes[:len(mac.Kids[3].Bytes)-1])
		case "mac-alg":
			a, _ := algIn(mac.Kids[0].Emb)
			if a == nil {
				return nil, false
			}
			if a.Arg == 5 {
				a.Arg = 6
			} else {
				a.Arg = 5
			}
		}
		return root.Encode(nil), true
	case "wrap-in-mac":
		if mac != nil {
			return nil, false
		}
		inner := enc.Encode(nil)
		m := &CNode{Major: 4, Kids: []*CNode{
			{Major: 2, Bytes: []byte{0xa1, 0x01, 0x05}}, {Major: 5}, {Major: 2, Bytes: inner}, {Major: 2, Bytes: bytes.Repeat([]byte{0x11}, 32)}}}
		return retag(17, m), true
	}
	return nil, false
}

func c05Run(env *Env, pl *C05Plan, base *c05Base) {
	o := env.Out
	cfg := tunnelKey(pl.Kex)
	spec := CipherSpecByName(pl.Cipher)
	ctx := context.Background()
	injectForward := strings.HasPrefix(pl.Fault, "inject-")
	s, cleanupSql := NewStdSql(nil, cfg, map[string]bool{"owner1": injectForward})
	defer cleanupSql()
	injectedResp := 0
	rec := &ModRecorder{}
	tap := NewTunnelTap()
	payloads := [][]byte{[]byte("owner-secret-configuration-0123456789abcdef"), bytes.Repeat([]byte("Z9"), 90)}
	o1 := s.Nodes["owner1"]
	o1.Reuse = true
	o1.Mods = &ModSM{Factory: PingFactory(o1, rec, payloads)}
	o1.WrapTO2 = func(r protocol.Responder) protocol.Responder { return tapResponder{r, tap} }
	mon := NewTunnelMonitor(spec)
	s.Net.AddHook(mon.Hook)
	opts := func(devName string) TO2Opts {
		return TO2Opts{Kex: kex.Suite(pl.Kex), Cipher: spec.ID, AllowReuse: true, Devmod: &c05Devmod,
			Modules:   map[string]serviceinfo.DeviceModule{"ping": &PongDevice{Mod: "ping", Rec: rec}},
			Transport: tapTransport{s.Transport(devName, "owner1"), tap}}
	}
	setupFail := func(step string, err error) {
		o.Class = "setup-failed:" + step
		o.Violate("C05", "honest-setup", step+"|"+pl.Kex+"|"+pl.Cipher, "honest preparation step %s failed for %+v: %v", step, *pl, err)
	}
	defer func() {
		env.Logf("plan=%+v class=%s", *pl, o.Class)
		for _, ev := range s.Net.Log {
			env.Logf("%d %s>%s %s %d/%d %s %v", ev.Seq, ev.From, ev.To, ev.Phase, ev.MsgType, ev.RespType, ev.BodyHash, ev.Faults)
		}
		for _, pr := range s.Net.Panics {
			o.Probe("panic:" + pr.Frame)
		}
		for k, v := range s.Net.Faults {
			o.Faults[k] += v
		}
	}()
	d1, _, err := s.Provision(ctx, "dev1", "dev1", "mfg", "owner1")
	if err != nil {
		setupFail("provision", err)
		return
	}

	// a complete earlier session of the same device (credential reuse keeps the
	// voucher) provides ciphertexts under other keys
	otherBodies := map[string][][]byte{}
	if pl.Fault == "other-session" {
		recording := true
		s.Net.AddHook(func(ev *NetEvent) {
			if !recording {
				return
			}
			if _, ok := tunnelMsg(ev); ok {
				dir := "d2o"
				if ev.Phase == "resp" {
					dir = "o2d"
				}
				otherBodies[dir] = append(otherBodies[dir], append([]byte(nil), ev.Body...))
			}
		})
		if _, err := s.TO2(ctx, d1, "owner1", nil, opts("dev1")); err != nil {
			setupFail("recorded-session", err)
			return
		}
		recording = false
		tap = NewTunnelTap()
		o1.WrapTO2 = func(r protocol.Responder) protocol.Responder { return tapResponder{r, tap} }
		o1.Rebuild()
		mon = NewTunnelMonitor(spec) // fresh-IV check restarts; cross-session IVs are compared below
	}

	count := map[string]int{}
	var seenBodies = map[string][][]byte{}
	tampered := false
	applicable := true
	s.Net.AddHook(func(ev *NetEvent) {
		if _, ok := tunnelMsg(ev); !ok || pl.Fault == "none" {
			if ok && base != nil {
				dir := "d2o"
				if ev.Phase == "resp" {
					dir = "o2d"
				}
				base.lens[dir] = append(base.lens[dir], len(ev.Body))
			}
			return
		}
		dir := "d2o"
		if ev.Phase == "resp" {
			dir = "o2d"
		}
		idx := count[dir]
		count[dir]++
		defer func() { seenBodies[dir] = append(seenBodies[dir], append([]byte(nil), ev.OrigBody...)) }()
		if tampered || dir != pl.Dir || idx != pl.Index {
			return
		}
		switch pl.Fault {
		case "inject-flip-then-forward", "inject-flip-hangup-then-forward", "inject-trunc-then-forward", "inject-trunc1-then-forward", "inject-empty-then-forward", "inject-garbage-then-forward":
			b := append([]byte(nil), ev.Body...)
			switch {
			case strings.HasPrefix(pl.Fault, "inject-flip"):
				b[len(b)-3] ^= 0x10
			case pl.Fault == "inject-trunc-then-forward":
				b = b[:len(b)/2] // the message as it looks when its sender went away half way
			case pl.Fault == "inject-trunc1-then-forward":
				b = b[:len(b)-1]
			case pl.Fault == "inject-empty-then-forward":
				b = nil
			default:
				for i := range b {
					b[i] = byte(i*37 + 11)
				}
			}
			c := &RawClient{Net: s.Net, From: "adversary", To: "owner1", Token: ev.Token, HangUp: pl.Fault == "inject-flip-hangup-then-forward"}
			tampered = true // before sending: the hook sees the injected request too
			injectedResp, _, _ = c.Send(ev.MsgType, b)
			ev.Fault(pl.Fault)
			return
		case "bitflip":
			if pl.Pos/8 >= len(ev.Body) {
				applicable = false
				return
			}
			b := append([]byte(nil), ev.Body...)
			b[pl.Pos/8] ^= 1 << uint(pl.Pos%8)
			ev.Body = b
			ev.Fault("bitflip")
		default:
			var plain, other, earlier []byte
			tap.mu.Lock()
			if idx < len(tap.Sent[dir]) {
				plain = tap.Sent[dir][idx]
			}
			tap.mu.Unlock()
			if idx < len(otherBodies[dir]) {
				other = otherBodies[dir][idx]
			}
			if idx > 0 && len(seenBodies[dir]) >= idx {
				earlier = seenBodies[dir][idx-1]
			}
			nb, ok := c05Downgrade(pl.Fault, ev.Body, spec, plain, other, earlier)
			if !ok {
				applicable = false
				return
			}
			ev.Body = nb
			ev.Fault("downgrade:" + pl.Fault)
		}
		tampered = true
	})

	storeMethod := strings.TrimPrefix(pl.Fault, "store-error:")
	if storeMethod != pl.Fault && o1.Sim != nil {
		o1.Sim.FailAt[storeMethod] = o1.Sim.Calls[storeMethod] + pl.Index
	}
	_, terr := s.TO2(ctx, d1, "owner1", nil, opts("dev1"))
	if storeMethod != pl.Fault && o1.Sim != nil {
		if o1.Sim.Calls[storeMethod] >= o1.Sim.FailAt[storeMethod] {
			tampered = true
			o.Fault("store-error")
		}
		delete(o1.Sim.FailAt, storeMethod)
	}

	// values that exist only inside the tunnel never appear in a clear-text byte
	// on the wire, whatever failed (error messages are sent unencrypted)
	if pl.Fault != "plaintext" {
		for _, ev := range s.Net.Log {
			for _, c := range c05Canaries {
				if bytes.Contains(ev.Body, c) {
					o.Class = "SECRET-ON-WIRE"
					o.Violate("C05", "tunnel-content-in-cleartext", fmt.Sprintf("%s|%d/%d", strings.SplitN(pl.Fault, ":", 2)[0], ev.MsgType, ev.RespType), "wire message %s %d/%d carries %q, a value that was only ever sent inside the tunnel (fault %s)", ev.Phase, ev.MsgType, ev.RespType, c, pl.Fault)
				}
			}
		}
	}

	// plaintexts must never be visible on the wire
	tap.mu.Lock()
	for _, dir := range []string{"d2o", "o2d"} {
		mon.Plain = append(mon.Plain, tap.Sent[dir]...)
	}
	sent, recv := tap.Sent, tap.Recv
	tap.mu.Unlock()
	if pl.Fault != "plaintext" {
		for _, e := range mon.CheckPlaintexts() {
			o.Violate("C05", "plaintext-on-wire", pl.Cipher, "%s", e)
		}
	}
	if pl.Fault == "none" {
		if terr != nil || rec.Count("Receive") == 0 {
			o.Class = "honest-failed"
			o.Violate("C05", "honest-run-must-succeed", pl.Kex+"|"+pl.Cipher, "honest TO2 over %s/%s failed: %v", pl.Kex, pl.Cipher, terr)
			return
		}
		for _, e := range mon.Errors {
			o.Violate("C05", "tunnel-format", pl.Cipher, "%s", e)
		}
		if len(mon.Frames) < 6 {
			o.Violate("C05", "tunnel-format", "frames", "only %d encrypted frames", len(mon.Frames))
		}
		for _, dir := range []string{"d2o", "o2d"} {
			if len(sent[dir]) != len(recv[dir]) {
				o.Violate("C05", "tap-mismatch", dir, "honest run: %d sent vs %d received in %s", len(sent[dir]), len(recv[dir]), dir)
			}
		}
		o.Class = "honest-ok"
		o.Sample = map[string]any{"frames": len(mon.Frames), "d2o": len(sent["d2o"]), "o2d": len(sent["o2d"])}
		return
	}
	if !tampered || !applicable {
		o.Class = "noop"
		return
	}
	o.Nontrivial = true
	if injectForward {
		o.Sample = map[string]any{"fault": pl.Fault, "index": pl.Index, "injected_copy_answered": injectedResp, "to2_err": fmt.Sprint(terr)}
		switch {
		case injectedResp != 255:
			o.Class = "INJECTED-COPY-NOT-REJECTED"
			o.Violate("C05", "altered-message-accepted", "inject|"+spec.Name, "a bit-flipped copy of device message #%d was answered %d (%s/%s)", pl.Index, injectedResp, pl.Kex, pl.Cipher)
		case terr == nil:
			o.Class = "RUN-SURVIVED-REJECTION"
			o.Violate("C05", "rejected-message-did-not-fail-the-run", strings.TrimPrefix(strings.TrimPrefix(pl.Fault, "inject-"), "flip-"), "the owner rejected a tampered message of this session (255), yet the same TO2 run went on and completed (%s/%s, %s)", pl.Kex, pl.Cipher, pl.Fault)
		default:
			o.Class = "rejected-and-run-failed"
		}
		return
	}
	if storeMethod != pl.Fault {
		if o.Class == "" {
			o.Class = "store-error-no-leak"
		}
		o.Sample = map[string]any{"fault": pl.Fault, "nth": pl.Index, "to2_err": fmt.Sprint(terr)}
		return
	}
	// what did the receiver of the tampered message obtain?
	dir, idx := pl.Dir, pl.Index
	got := idx < len(recv[dir])
	o.Sample = map[string]any{"fault": pl.Fault, "dir": dir, "index": idx, "pos": pl.Pos, "receiver_accepted": got, "to2_err": fmt.Sprint(terr)}
	if pl.Fault == "replay-earlier" {
		if got {
			o.Probe("in-session-replay-accepted")
		}
		o.Class = "not-judged"
		return
	}
	// every message any receiver obtained must be what its sender protected
	for _, d := range []string{"d2o", "o2d"} {
		for i, r := range recv[d] {
			if i >= len(sent[d]) || !bytes.Equal(r, sent[d][i]) {
				var want []byte
				if i < len(sent[d]) {
					want = sent[d][i]
				}
				o.Class = "ACCEPTED-ALTERED-PLAINTEXT"
				o.Violate("C05", "altered-message-accepted", fmt.Sprintf("%s|%s|%s", pl.Fault, aeadKind(spec), d), "after %s of %s message #%d (%s/%s) the receiver accepted plaintext %x… but the sender protected %x…", pl.Fault, dir, idx, pl.Kex, pl.Cipher, head(r, 24), head(want, 24))
				return
			}
		}
	}
	if !got {
		// rejected: the run must fail
		if terr == nil {
			o.Class = "REJECTED-BUT-RUN-SUCCEEDED"
			o.Violate("C05", "rejected-message-must-fail-run", pl.Fault+"|"+aeadKind(spec), "message was rejected by the receiver but TO2 reported success")
			return
		}
		o.Class = "rejected"
		return
	}
	o.Class = "accepted-identical"
}

func aeadKind(s CipherSpec) string {
	if s.AEAD {
		return "aead"
	}
	return "enc-then-mac:" + s.Name
}

func head(b []byte, n int) []byte {
	if len(b) > n {
		return b[:n]
	}
	return b
}
