package fdosim

import (
	"encoding/json"
	"fmt"
	"os"
	"sort"
	"strconv"
	"testing"
	"time"
)

func envInt(name string, def int) int {
	if v, err := strconv.Atoi(os.Getenv(name)); err == nil {
		return v
	}
	return def
}

// TestWorker is the entry point of a worker process (see /verif/check).
func TestWorker(t *testing.T) {
	id := os.Getenv("VERIF_PROP")
	if id == "" {
		t.Skip("VERIF_PROP not set")
	}
	tier := os.Getenv("VERIF_TIER")
	if tier == "" {
		tier = "quick"
	}
	seed := uint64(envInt("VERIF_SEED", 1))
	shard, nshards := envInt("VERIF_SHARD", 0), envInt("VERIF_NSHARDS", 1)
	budget := time.Duration(envInt("VERIF_BUDGET_S", 60)) * time.Second
	res := Worker(t, id, tier, seed, shard, nshards, budget)
	b, _ := json.Marshal(res)
	if out := os.Getenv("VERIF_OUT"); out != "" {
		if err := os.WriteFile(out, b, 0o644); err != nil {
			t.Fatal(err)
		}
	} else {
		fmt.Println(string(b))
	}
}

// TestReplay re-executes one replay file.
func TestReplay(t *testing.T) {
	path := os.Getenv("VERIF_REPLAY")
	if path == "" {
		t.Skip("VERIF_REPLAY not set")
	}
	if Replay(t, path) {
		fmt.Println("REPLAY reproduced=true")
	} else {
		fmt.Println("REPLAY reproduced=false")
	}
}

// TestMeta prints static facts about a property for the driver.
func TestMeta(t *testing.T) {
	id := os.Getenv("VERIF_PROP")
	if id == "" {
		t.Skip("VERIF_PROP not set")
	}
	if id == "*" {
		var ids []string
		for k := range props {
			ids = append(ids, k)
		}
		sort.Strings(ids)
		b, _ := json.Marshal(map[string]any{"ids": ids})
		fmt.Println(string(b))
		return
	}
	p := props[id]
	if p == nil {
		t.Fatalf("unknown property %q", id)
	}
	p.Prepare(t, "quick", uint64(envInt("VERIF_SEED", 1)))
	nq := p.NumPlans("quick")
	b, _ := json.Marshal(map[string]any{
		"level": p.Level(), "rule": p.Rule(), "exhaustive_quick": p.Exhaustive("quick"), "exhaustive_thorough": p.Exhaustive("thorough"),
		"components": p.Components(), "assumptions": p.Assumptions(), "plans_quick": nq,
	})
	fmt.Println(string(b))
}
