package fdosim

import (
	"bytes"
	"context"
	"fmt"
	"io"
	"math/rand/v2"
	"strconv"
	"strings"

	fdo "github.com/fido-device-onboard/go-fdo"
	"github.com/fido-device-onboard/go-fdo/cbor"
	"github.com/fido-device-onboard/go-fdo/kex"
	"github.com/fido-device-onboard/go-fdo/protocol"
	"github.com/fido-device-onboard/go-fdo/serviceinfo"
)

// C08 — server effects happen only through in-order, session-bound message
// sequences. Several honest devices run DI, TO0, TO1 and TO2 concurrently as
// kernel tasks; an adversary task injects recorded, replayed, mutated and
// reordered requests with every kind of token between their messages.

type C08Inject struct {
	After  int    `json:"after"`   // inject once this many requests have been delivered
	Pick   int    `json:"pick"`    // which recorded request to reuse (index modulo log)
	Token  string `json:"token"`   // none | own | other | otherproto | damaged | invalidated | fresh
	Mutate int    `json:"mutate"`  // 0 = verbatim, n>0 = mutation ordinal n-1
	AsType int    `json:"as_type"` // 0 = keep message type, else send the body as this type
	// ErrBody (with AsType 255) chooses the body of the error report: 0 the
	// picked request's own body (not an error message at all), 1 empty, 2 a CBOR
	// text string, 3-6 a well-formed error message naming message type 0, 99,
	// the start message of another protocol, or the picked request's type.
	ErrBody int `json:"err_body,omitempty"`
}

type C08Plan struct {
	Seed    uint64      `json:"seed"`
	Key     string      `json:"key"`
	Enc     uint8       `json:"enc"`
	Sql     bool        `json:"sql"`
	Devices int         `json:"devices"`
	Sched   SchedPolicy `json:"sched"`
	Inject  []C08Inject `json:"inject"`
	// Deviant makes device 1 a protocol participant that holds the session keys
	// but skips a step: "skip66" (no DeviceServiceInfoReady before the first
	// DeviceServiceInfo), "done-early:N" (sends Done after N service-info
	// rounds although the owner has not signalled IsDone).
	Deviant string `json:"deviant,omitempty"`
	// HangUpFinal: the honest clients disconnect as soon as the server starts to
	// answer the final request of each protocol (12, 22, 32, 70): the request
	// context is cancelled while the handler finishes the session.
	HangUpFinal bool `json:"hang_up_final,omitempty"`
	// HangUpStmt: on a sqlite node the hang-up happens when the backend logs its
	// n-th SQL statement of that request (swept over the plans, so that it falls
	// before, inside and after the state changes of the final message).
	HangUpStmt int `json:"hang_up_stmt,omitempty"`
}

// c08Deviant wraps the device's transport (which sees plaintext and the
// session) and answers the skipped request locally.
type c08Deviant struct {
	inner     fdo.Transport
	mode      string
	rounds    int
	net       *Net
	deviated  int // network sequence number at the moment of the deviation (0: not yet)
	fakeCount int
	// onDeviate is called once, at the moment of the deviation (storage faults
	// that coincide with the out-of-order request)
	onDeviate func()
}

func (t *c08Deviant) Send(ctx context.Context, msgType uint8, msg any, sess kex.Session) (uint8, io.ReadCloser, error) {
	fake := func(rt uint8, v any) (uint8, io.ReadCloser, error) {
		if t.deviated == 0 {
			t.deviated = t.net.Seq()
			if t.onDeviate != nil {
				t.onDeviate()
			}
		}
		t.fakeCount++
		b, _ := cbor.Marshal(v)
		return rt, io.NopCloser(bytes.NewReader(b)), nil
	}
	switch {
	case t.mode == "skip66" && msgType == 66:
		return fake(67, []any{nil})
	case strings.HasPrefix(t.mode, "done-early") && msgType == 68:
		n, _ := strconv.Atoi(strings.TrimPrefix(t.mode, "done-early:"))
		if t.rounds >= n {
			// pretend the owner said IsDone
			return fake(69, []any{false, true, []any{}})
		}
		t.rounds++
	}
	return t.inner.Send(ctx, msgType, msg, sess)
}

type c08 struct{ noPrepare }

func init() { Register(&c08{}) }

func (p *c08) ID() string    { return "C08" }
func (p *c08) Level() string { return "exploration" }
func (p *c08) NewPlan() any  { return &C08Plan{} }
func (p *c08) Rule() string {
	return "each run: 2-4 honest devices execute DI, TO0, TO1, TO2 concurrently as kernel tasks (message-level interleaving chosen by the seeded scheduler) against shared manufacturer/rendezvous/owner nodes; an adversary task injects up to 12 requests built from everything recorded so far (verbatim, mutated, re-typed) with token choice none/own/other session/other protocol/damaged/invalidated/fresh; the reference session state machine (per token: the authentic in-order messages of the honest client) must justify every journalled AddVoucher(DI), SetRVBlob, module.* and ReplaceVoucher; quick additionally sweeps all 13 request types x 7 token choices at one pause point; non-trivial = at least one adversary request was handled; distinct = distinct (schedule, injections, outcome, log hash)"
}
func (p *c08) Exhaustive(string) bool { return false }
func (p *c08) Components() map[string][]string {
	return map[string][]string{
		"real": {"http.Handler (token handling, invalidation)", "DI/TO0/TO1/TO2 responders", "honest fdo clients", "sqlite.DB token MAC (sql plans)"},
		"stub": {"kernel scheduler (interleaves sessions at message granularity)", "adversary client", "simstore", "clock", "crypto randomness", "ping modules"},
	}
}
func (p *c08) Assumptions() []string {
	return []string{
		"an adversary request that is a copy of a message the honest client of that session already sent (byte-identical, re-encoded with non-minimal CBOR heads that leave every value unchanged, or altered only inside the protected header of a tunnel message's COSE wrapper, which leaves key, IV and ciphertext and hence the plaintext unchanged), carried by that session's live token, is network duplication and is not judged",
		"state-backend methods do not yield in this property, so a request is handled atomically and journalled effects are attributed to exactly one request",
	}
}

var c08Tokens = []string{"none", "own", "other", "otherproto", "damaged", "damaged-tail", "invalidated", "fresh"}
var c08MsgTypes = []int{10, 12, 20, 22, 30, 32, 60, 62, 64, 66, 68, 70, 255}

func (p *c08) NumPlans(tier string) int {
	if tier == "thorough" {
		return 40000
	}
	return 1700
}

func (p *c08) Plan(tier string, seed uint64, i int) any {
	r := rand.New(rand.NewPCG(seed*977+3, uint64(i)))
	fam := c01SweepFams[i%len(c01SweepFams)]
	pl := &C08Plan{Seed: seed*1_000_003 + uint64(i), Key: fam.Key, Enc: fam.Enc, Devices: 2 + r.IntN(3), Sql: i%8 == 5,
		Sched: []SchedPolicy{SchedRandom, SchedPCT, SchedRandom}[i%3]}
	sweep := len(c08MsgTypes) * len(c08Tokens)
	if i < 2*sweep {
		// systematic part: every request type x token choice on both backends,
		// injected at a pause point in the middle of the honest traffic
		pl.Sql = i >= sweep
		i %= sweep
		mt, tk := c08MsgTypes[i%len(c08MsgTypes)], c08Tokens[i/len(c08MsgTypes)]
		if pl.Sql {
			pl.Seed = pl.Seed - pl.Seed%3 + uint64(map[string]int{"DI": 0, "TO0": 1, "TO1": 1, "TO2": 2, "": 2}[protoOf(mt)])
		}
		pl.Devices = 2
		pl.Inject = []C08Inject{{After: 14 + r.IntN(10), Pick: -mt, Token: tk}, {After: 30 + r.IntN(10), Pick: -mt, Token: tk, Mutate: 1 + r.IntN(40)}}
		return pl
	}
	if i < 2*sweep+40 {
		// kill a session with a corrupted request, then present its token again
		// with one of its own earlier, authentic requests
		j := i - 2*sweep
		pl.Sql = j%2 == 1
		pl.Devices = 2
		kill := []int{62, 64, 66, 68, 12, 22, 32}[j%7]
		reuse := map[int]int{62: 62, 64: 62, 66: 62, 68: 66, 12: 12, 22: 22, 32: 32}[kill]
		pl.Inject = []C08Inject{{After: 20 + r.IntN(20), Pick: -kill, Token: "own", Mutate: 1 + r.IntN(30)}, {After: 0, Pick: -reuse, Token: "invalidated"}}
		return pl
	}
	if i < 2*sweep+40+48 {
		// a participant holding the session keys skips a step
		j := i - 2*sweep - 40
		pl.Sql = j%4 == 3
		pl.Devices = 2 + j%2
		pl.Deviant = []string{"skip66", "done-early:0", "done-early:1", "done-early:2"}[j%4]
		return pl
	}
	if i >= 2*sweep+40+48+2*len(c08DoneReads) && i < 2*sweep+40+48+2*len(c08DoneReads)+120 {
		// sessions whose final request was answered to a client that had hung up;
		// their tokens are presented again afterwards (sqlite honours contexts)
		j := i - (2*sweep + 40 + 48 + 2*len(c08DoneReads))
		pl.Sql, pl.HangUpFinal, pl.Devices = true, true, 2
		pl.Seed = pl.Seed - pl.Seed%3 + uint64(j%3)
		pl.HangUpStmt = 1 + j/3
		for _, m := range []int{12, 22, 32, 70, 62, 66, 68} {
			pl.Inject = append(pl.Inject, C08Inject{After: 36 + r.IntN(8), Pick: -m, Token: "invalidated"})
		}
		return pl
	}
	if base := 2*sweep + 40 + 48 + 2*len(c08DoneReads) + 120; i >= base && i < base+98 {
		// a session ended by a client-reported error (type 255 under the session's
		// token, in every shape the body can take): the honest client's next
		// request and a replay of an earlier one must both be refused
		j := i - base
		pl.Sql = j%2 == 1
		pl.Devices = 2
		kill := []int{62, 64, 66, 68, 12, 22, 32}[j%7]
		reuse := map[int]int{62: 62, 64: 62, 66: 62, 68: 66, 12: 12, 22: 22, 32: 32}[kill]
		pl.Inject = []C08Inject{{After: 20 + r.IntN(20), Pick: -kill, Token: "own", AsType: 255, ErrBody: (j / 7) % 7}, {After: 0, Pick: -reuse, Token: "invalidated"}}
		return pl
	}
	if i < 2*sweep+40+48+2*len(c08DoneReads) {
		// the same deviations while the owner's state backend fails a read
		j := i - 2*sweep - 40 - 48
		pl.Devices = 1 // alone, so that the failing reads are those of the deviating session
		pl.Deviant = []string{"done-early:0", "skip66"}[j%2] + "+fail:" + c08DoneReads[j/2]
		return pl
	}
	n := 1 + r.IntN(12)
	for k := 0; k < n; k++ {
		in := C08Inject{After: r.IntN(16 * pl.Devices), Pick: r.IntN(1000), Token: c08Tokens[r.IntN(len(c08Tokens))]}
		if r.IntN(3) == 0 {
			in.Mutate = 1 + r.IntN(200)
		}
		if r.IntN(6) == 0 {
			in.AsType = c08MsgTypes[r.IntN(len(c08MsgTypes))]
		}
		pl.Inject = append(pl.Inject, in)
	}
	return pl
}

func (p *c08) Shrink(plan any) []any {
	pl := plan.(*C08Plan)
	var out []any
	for i := range pl.Inject {
		c := *pl
		c.Inject = append(append([]C08Inject(nil), pl.Inject[:i]...), pl.Inject[i+1:]...)
		out = append(out, &c)
	}
	if pl.Devices > 2 {
		c := *pl
		c.Devices--
		out = append(out, &c)
	}
	if pl.Sched != SchedFIFO {
		c := *pl
		c.Sched = SchedFIFO
		out = append(out, &c)
	}
	for i, in := range pl.Inject {
		if in.Mutate != 0 {
			c := *pl
			c.Inject = append([]C08Inject(nil), pl.Inject...)
			c.Inject[i].Mutate = 0
			out = append(out, &c)
		}
	}
	return out
}

// state reads made while TO2.Done / DeviceServiceInfo are handled
var c08DoneReads = []string{"Devmod", "MTU", "GUID", "Voucher", "XSession", "ProveDeviceNonce", "SetupDeviceNonce", "ReplacementHmac", "RvInfo", "ReplacementGUID", "OwnerKey"}

var c08Forbidden = map[string]bool{"AddVoucher": true, "SetRVBlob": true, "ReplaceVoucher": true, "module.start": true, "module.HandleInfo": true, "module.ProduceInfo": true}

func stripBearer(t string) string { return strings.TrimPrefix(t, "Bearer ") }

func (p *c08) Exec(env *Env, plan any) {
	pl := plan.(*C08Plan)
	o := env.Out
	cfg := keyCfgByName(pl.Key, pl.Enc)
	ctx := context.Background()
	k := NewKernel(pl.Seed, pl.Sched, 60000)
	sql := map[string]bool{}
	if pl.Sql {
		sql = map[string]bool{[]string{"mfg", "rv", "owner1"}[pl.Seed%3]: true}
	}
	s, cleanup := NewStdSql(k, cfg, sql)
	defer cleanup()
	// requests are handled atomically: no yields inside state methods nor in
	// the service-info pipes (which the owner side uses while handling 68)
	InstallHooks(nil)
	for _, n := range s.Nodes {
		if n.Sim != nil {
			n.Sim.SetYield(nil)
		}
		if jb, ok := n.Store.(*journalBackend); ok {
			jb.yield = nil
		}
	}
	s.Net.MaxMsgs = 1500
	rec := &ModRecorder{}
	o1 := s.Nodes["owner1"]
	o1.Mods = &ModSM{Factory: PingFactory(o1, rec, [][]byte{[]byte("owner-to-device-service-info")})}

	var deviant *c08Deviant
	if pl.Deviant != "" {
		mode, faultMethod, _ := strings.Cut(pl.Deviant, "+fail:")
		deviant = &c08Deviant{mode: mode, net: s.Net}
		if faultMethod != "" && o1.Sim != nil {
			// the owner's state backend fails its next reads of that kind, i.e.
			// those made while the out-of-order request is handled
			deviant.onDeviate = func() {
				o1.Sim.FailNext[faultMethod] = 2
				o.Fault("store-error:" + faultMethod)
			}
		}
	}
	if pl.HangUpFinal {
		s.Net.AddHook(func(ev *NetEvent) {
			if ev.Phase == "req" && !ev.Adversary && (ev.MsgType == 12 || ev.MsgType == 22 || ev.MsgType == 32 || ev.MsgType == 70) {
				// on a sqlite node: at the n-th SQL statement of the request;
				// elsewhere: when the first byte of the answer is written
				if n := s.Nodes[ev.To]; n != nil && n.Sql != nil {
					ev.CancelAtStmt = pl.HangUpStmt
				} else {
					ev.HangUp = true
				}
				ev.Fault("client-hangs-up-on-final-message")
			}
		})
	}
	results := make([]string, pl.Devices)
	for d := 0; d < pl.Devices; d++ {
		d := d
		name := fmt.Sprintf("dev%d", d+1)
		k.Go(name, func() {
			dev := s.NewDevice(name, name, cfg)
			if err := s.DI(ctx, dev, "mfg"); err != nil {
				results[d] = "DI:" + err.Error()
				return
			}
			if _, err := s.ExtendTo(ctx, "mfg", dev.Cred.GUID, cfg, "mfg", "owner1", "owner1"); err != nil {
				results[d] = "extend:" + err.Error()
				return
			}
			if _, err := s.TO0(ctx, "owner1", "rv", dev.Cred.GUID, 3600); err != nil {
				results[d] = "TO0:" + err.Error()
				return
			}
			to1d, err := s.TO1(ctx, dev, "rv")
			if err != nil {
				results[d] = "TO1:" + err.Error()
				return
			}
			opts := TO2Opts{Kex: defaultKex(cfg), Cipher: kex.A128GcmCipher,
				Modules: map[string]serviceinfo.DeviceModule{"ping": &PongDevice{Mod: "ping", Rec: rec}}}
			if d == 0 && deviant != nil {
				deviant.inner = s.Transport(name, "owner1")
				opts.Transport = deviant
			}
			if _, err := s.TO2(ctx, dev, "owner1", to1d, opts); err != nil {
				results[d] = "TO2:" + err.Error()
				return
			}
			results[d] = "ok"
		})
	}

	type injRec struct {
		in       C08Inject
		msg      int
		node     string
		token    string
		bodyHash string
		sameAs   string // hash of the recorded message whose content this request carries unchanged ("" if altered)
		resp     int
		seq      int
		desc     string
	}
	var injected []*injRec
	nodeOf := func(msg int) string {
		switch protoOf(msg) {
		case "DI":
			return "mfg"
		case "TO0", "TO1":
			return "rv"
		}
		return "owner1"
	}
	reqCount := func() int {
		n := 0
		for _, ev := range s.Net.Log {
			if ev.Phase == "req" && !ev.Adversary {
				n++
			}
		}
		return n
	}
	k.Go("adversary", func() {
		for _, in := range pl.Inject {
			// wait for the pause point (or until the honest traffic is over)
			for spins := 0; reqCount() < in.After && spins < 4000; spins++ {
				if k.Yield("adv.wait") == 0 {
					break
				}
				done := true
				for _, r := range results {
					if r == "" {
						done = false
					}
				}
				if done {
					break
				}
			}
			// choose material recorded so far
			var reqs []*NetEvent
			for _, ev := range s.Net.Log {
				if ev.Phase == "req" && !ev.Adversary {
					reqs = append(reqs, ev)
				}
			}
			if len(reqs) == 0 {
				continue
			}
			var src *NetEvent
			if in.Pick < 0 {
				for _, ev := range reqs {
					if int(ev.MsgType) == -in.Pick {
						src = ev
					}
				}
				if src == nil {
					src = &NetEvent{MsgType: uint8(-in.Pick), To: nodeOf(-in.Pick), Body: []byte{0x80}}
				}
			} else {
				src = reqs[in.Pick%len(reqs)]
			}
			body := src.Body
			desc := fmt.Sprintf("copy-of-seq%d", src.Seq)
			sameContent := digest(src.Body) // hash of the message this request is a re-encoding of
			if in.Mutate > 0 {
				if muts := AllMutations(body); len(muts) > 0 {
					m := muts[(in.Mutate-1)%len(muts)]
					body = m.ApplyAny()
					desc += "+" + m.String()
					// an alteration of the COSE wrapper of a tunnel message (protected or
					// unprotected header, e.g. a duplicated IV entry, or the ciphertext)
					// either makes the receiver reject it or, the ciphertext being
					// authenticated under the session keys, yields the plaintext of the
					// authentic message: if it is accepted at all it is a re-encoding of
					// that message (whether it should be accepted is C05's question, which
					// also checks that the plaintext is identical)
					if m.Semantic && !(src.MsgType >= 66 && src.MsgType <= 70) {
						sameContent = ""
					}
				}
			}
			msg := int(src.MsgType)
			if in.AsType != 0 {
				msg = in.AsType
				desc += fmt.Sprintf("+as%d", msg)
			}
			node := nodeOf(msg)
			if msg == 255 {
				node = src.To
				if node == "" {
					node = "owner1"
				}
				if in.ErrBody > 0 {
					prev := map[int]uint8{3: 0, 4: 99, 5: map[string]uint8{"DI": 60, "TO0": 10, "TO1": 60, "TO2": 30, "": 10}[protoOf(int(src.MsgType))], 6: src.MsgType}[in.ErrBody]
					switch in.ErrBody {
					case 1:
						body = nil
					case 2:
						body, _ = cbor.Marshal("device gave up")
					default:
						body, _ = cbor.Marshal(protocol.ErrorMessage{Code: 100, PrevMsgType: prev, ErrString: "x"})
					}
					desc += fmt.Sprintf("+errbody%d", in.ErrBody)
				}
			}
			// token choice
			tokensOf := func(pred func(ev *NetEvent) bool) []string {
				var out []string
				seen := map[string]bool{}
				for _, ev := range s.Net.Log {
					if ev.Phase == "resp" && ev.Token != "" && !ev.Adversary && pred(ev) && !seen[ev.Token] {
						seen[ev.Token] = true
						out = append(out, ev.Token)
					}
				}
				return out
			}
			tok := ""
			switch in.Token {
			case "own":
				tok = src.Token
				if tok == "" {
					// start message: the token the server issued in answer to it
					for _, ev := range s.Net.Log {
						if ev.Phase == "resp" && ev.ReqSeq == src.Seq {
							tok = ev.Token
						}
					}
				}
			case "other":
				if ts := tokensOf(func(ev *NetEvent) bool {
					return protoOf(int(ev.MsgType)) == protoOf(msg) && ev.Token != src.Token && ev.Session != src.Session
				}); len(ts) > 0 {
					tok = ts[in.Pick%len(ts)]
					if in.Pick < 0 {
						tok = ts[0]
					}
				}
			case "otherproto":
				if ts := tokensOf(func(ev *NetEvent) bool { return protoOf(int(ev.MsgType)) != protoOf(msg) && ev.From == node }); len(ts) > 0 {
					tok = ts[len(ts)-1]
				}
			case "damaged", "damaged-tail":
				tok = src.Token
				if tok == "" {
					tok = "Bearer AAAAAAAAAAAAAAAAAAAAAAAAAAAAAAAAAAAAAAAAAAAAAAAAAAAAAAAAAAAAAAAA"
				}
				b := []byte(tok)
				pos := len(b) / 2
				if in.Token == "damaged-tail" {
					pos = len(b) - 2
				}
				// stay inside the base64url alphabet so that only the value changes
				if b[pos] == 'A' {
					b[pos] = 'B'
				} else {
					b[pos] = 'A'
				}
				tok = string(b)
			case "invalidated":
				// the token of a session that already ended (final message or any
				// error), presented with one of that session's own earlier requests
				var endedToks []string
				for _, ev := range s.Net.Log {
					if ev.Phase == "resp" {
						for _, rq := range s.Net.Log {
							if !(ev.RespType == 13 || ev.RespType == 23 || ev.RespType == 33 || ev.RespType == 71 || ev.RespType == 255 || (rq.Seq == ev.ReqSeq && rq.Phase == "req" && rq.MsgType == 255)) {
								continue
							}
							if rq.Seq == ev.ReqSeq && rq.Phase == "req" && rq.Token != "" && rq.MsgType != 10 && rq.MsgType != 20 && rq.MsgType != 30 && rq.MsgType != 60 {
								// tokens are per node: the session only ended if the
								// node that issued the token gave that answer
								issued := false
								for _, is := range s.Net.Log {
									if is.Phase == "resp" && is.Token == rq.Token && is.From == rq.To && !is.Adversary {
										issued = true
									}
								}
								if issued {
									endedToks = append(endedToks, rq.Token)
								}
							}
						}
					}
				}
				if in.Pick < 0 {
					// prefer ended sessions that did send a request of the wanted type
					var f []string
					for _, t := range endedToks {
						for _, rq := range reqs {
							if rq.Token == t && int(rq.MsgType) == -in.Pick {
								f = append(f, t)
								break
							}
						}
					}
					if len(f) > 0 {
						endedToks = f
					}
				}
				if len(endedToks) > 0 {
					p := in.Pick
					if p < 0 {
						p = -p
					}
					tok = endedToks[p%len(endedToks)]
					var own []*NetEvent
					for _, rq := range reqs {
						if rq.Token == tok && (in.Pick >= 0 || int(rq.MsgType) == -in.Pick) {
							own = append(own, rq)
						}
					}
					if len(own) > 0 && in.Mutate == 0 && in.AsType == 0 {
						src = own[p%len(own)]
						body, msg, node = src.Body, int(src.MsgType), src.To
						desc = fmt.Sprintf("ended-session-own-seq%d", src.Seq)
					}
				}
			case "fresh":
				// a token obtained by the adversary's own start message of that protocol
				start := map[string]int{"DI": 10, "TO0": 20, "TO1": 30, "TO2": 60}[protoOf(msg)]
				if start != 0 {
					c := &RawClient{Net: s.Net, From: "adversary", To: node}
					var sb []byte = []byte{0x80}
					for _, ev := range reqs {
						if int(ev.MsgType) == start {
							sb = ev.Body
						}
					}
					_, _, _ = c.Send(uint8(start), sb)
					tok = c.Token
				}
			}
			c := &RawClient{Net: s.Net, From: "adversary", To: node, Token: tok}
			rt, _, err := c.Send(uint8(msg), body)
			if err != nil {
				rt = -1
			}
			if in.AsType != 0 {
				sameContent = ""
			}
			ir := &injRec{in: in, msg: msg, node: node, token: tok, bodyHash: digest(body), sameAs: sameContent, resp: rt, desc: desc}
			// the injected request is the last adversary request in the log
			for i := len(s.Net.Log) - 1; i >= 0; i-- {
				if s.Net.Log[i].Phase == "req" && s.Net.Log[i].Adversary {
					ir.seq = s.Net.Log[i].Seq
					break
				}
			}
			injected = append(injected, ir)
		}
	})
	k.Run()
	o.Steps, o.MultiSteps = k.Steps, k.MultiSteps
	o.Sched = fmt.Sprintf("%s:%016x", pl.Sched, k.TraceHash())
	if k.Deadlock {
		o.Deadlock = true
	}

	env.Logf("plan devices=%d sql=%v sched=%s steps=%d results=%v", pl.Devices, pl.Sql, o.Sched, k.Steps, results)
	for _, ev := range s.Net.Log {
		env.Logf("%d %s>%s %s %d/%d %d %s adv=%v eff=%d-%d", ev.Seq, ev.From, ev.To, ev.Phase, ev.MsgType, ev.RespType, ev.Status, ev.BodyHash, ev.Adversary, ev.EffFrom, ev.EffTo)
	}
	for k2, v := range s.Net.Faults {
		o.Faults[k2] += v
	}
	for _, pr := range s.Net.Panics {
		o.Probe("panic:" + pr.Frame)
	}

	// --- oracle: the reference session state machine ---
	journal := s.Journal.Since(0)
	authentic := map[string]map[string]bool{} // token -> set of "msg/bodyhash" sent by the honest client of that session
	tokenOfStart := map[int]string{}
	for _, ev := range s.Net.Log {
		if ev.Adversary {
			continue
		}
		if ev.Phase == "resp" && ev.Token != "" {
			tokenOfStart[ev.ReqSeq] = ev.Token
		}
	}
	for _, ev := range s.Net.Log {
		if ev.Adversary || ev.Phase != "req" {
			continue
		}
		t := ev.Token
		if t == "" {
			t = tokenOfStart[ev.Seq]
		}
		if authentic[t] == nil {
			authentic[t] = map[string]bool{}
		}
		authentic[t][fmt.Sprintf("%d/%s", ev.MsgType, digest(ev.Body))] = true
	}
	issuer := map[string]string{} // token -> node that issued it
	for _, ev := range s.Net.Log {
		if ev.Phase == "resp" && ev.Token != "" {
			if _, ok := issuer[ev.Token]; !ok {
				issuer[ev.Token] = ev.From
			}
		}
	}
	ended := map[string]int{} // token -> seq at which its session ended
	for _, ev := range s.Net.Log {
		if ev.Phase != "resp" {
			continue
		}
		{
			for _, rq := range s.Net.Log {
				// a final answer, an error answer, or an error reported by the client
				// under the session's token
				if !(ev.RespType == 13 || ev.RespType == 23 || ev.RespType == 33 || ev.RespType == 71 || ev.RespType == 255 || (rq.Seq == ev.ReqSeq && rq.Phase == "req" && rq.MsgType == 255)) {
					continue
				}
				if rq.Seq == ev.ReqSeq && rq.Phase == "req" {
					t := rq.Token
					if mt := rq.MsgType; mt == 10 || mt == 20 || mt == 30 || mt == 60 {
						// a start message always opens a new session, whatever
						// token it carried: only that new session can end here
						t = ev.Token
					}
					if t != "" && issuer[t] == ev.From {
						if _, ok := ended[t]; !ok {
							ended[t] = ev.Seq
						}
					}
				}
			}
		}
	}
	judged, either := 0, 0
	for _, ir := range injected {
		var req *NetEvent
		for _, ev := range s.Net.Log {
			if ev.Seq == ir.seq && ev.Phase == "req" {
				req = ev
			}
		}
		if req == nil {
			continue
		}
		o.Nontrivial = true
		if ir.in.Token == "fresh" && (ir.msg == 12 || ir.msg == 22 || ir.msg == 32 || ir.msg == 62 || ir.msg == 64) {
			// the adversary ran its own session in protocol order (start message,
			// then its successor): whatever that yields is decided by the
			// responder's content checks (C02/C06/C07), not by session binding
			either++
			continue
		}
		// a copy of an authentic message of that session, byte-identical or in
		// another encoding of the same content, is network duplication
		dup := ir.token != "" && (authentic[ir.token][fmt.Sprintf("%d/%s", ir.msg, ir.bodyHash)] || (ir.sameAs != "" && authentic[ir.token][fmt.Sprintf("%d/%s", ir.msg, ir.sameAs)]))
		if dup {
			if e, isEnded := ended[ir.token]; !isEnded || e > ir.seq {
				either++
				continue // duplicate of an authentic message in a live session: not judged
			}
		}
		judged++
		var bad []string
		for _, e := range journal[min(req.EffFrom, len(journal)):min(req.EffTo, len(journal))] {
			if c08Forbidden[e.Op] && e.Node == ir.node {
				bad = append(bad, e.Op)
			}
		}
		if len(bad) > 0 {
			o.Class = "UNJUSTIFIED-EFFECT"
			o.Violate("C08", "unjustified-effect", fmt.Sprintf("%d|%s|%s", ir.msg, ir.in.Token, bad[0]), "adversary request type %d (%s, token=%s) caused effects %v; response %d", ir.msg, ir.desc, ir.in.Token, bad, ir.resp)
		}
		// a finished or errored session's token grants nothing
		if e, isEnded := ended[ir.token]; ir.token != "" && isEnded && e < ir.seq {
			start := ir.msg == 10 || ir.msg == 20 || ir.msg == 30 || ir.msg == 60
			if !start && ir.msg != 255 && ir.resp != 255 && ir.resp > 0 {
				o.Class = "ENDED-TOKEN-ACCEPTED"
				o.Violate("C08", "ended-token-accepted", fmt.Sprintf("%d|%s", ir.msg, ir.in.Token), "request type %d with the token of a session that had ended was answered %d (%s)", ir.msg, ir.resp, ir.desc)
			}
		}
		// anything that is not a start message and carries no valid session must be an error
		if (ir.in.Token == "none" || ir.in.Token == "damaged" || ir.in.Token == "damaged-tail") && ir.msg != 10 && ir.msg != 20 && ir.msg != 30 && ir.msg != 60 && ir.msg != 255 && ir.resp > 0 && ir.resp != 255 {
			o.Class = "NO-TOKEN-ACCEPTED"
			o.Violate("C08", "tokenless-request-accepted", fmt.Sprintf("%d|%s", ir.msg, ir.in.Token), "request type %d with token choice %q was answered %d (%s)", ir.msg, ir.in.Token, ir.resp, ir.desc)
		}
	}
	// the same for the honest clients: once a session has ended (for instance
	// because somebody reported an error under its token) its owner's next
	// request is refused as well
	for _, rq := range s.Net.Log {
		if rq.Phase != "req" || rq.Adversary || rq.Token == "" || rq.MsgType == 255 || rq.MsgType == 10 || rq.MsgType == 20 || rq.MsgType == 30 || rq.MsgType == 60 {
			continue
		}
		e, isEnded := ended[rq.Token]
		if !isEnded || e >= rq.Seq || issuer[rq.Token] != rq.To {
			continue
		}
		for _, ev := range s.Net.Log {
			if ev.Phase == "resp" && ev.ReqSeq == rq.Seq && ev.Status == 200 && ev.RespType != 255 && ev.RespType > 0 {
				o.Class = "ENDED-TOKEN-ACCEPTED"
				o.Violate("C08", "ended-token-accepted", fmt.Sprintf("%d|honest", rq.MsgType), "request type %d of the honest client, sent after its session had ended at event %d, was answered %d", rq.MsgType, e, ev.RespType)
			}
		}
		for _, je := range journal[min(rq.EffFrom, len(journal)):min(rq.EffTo, len(journal))] {
			if c08Forbidden[je.Op] && je.Node == rq.To {
				o.Class = "UNJUSTIFIED-EFFECT"
				o.Violate("C08", "unjustified-effect", fmt.Sprintf("%d|honest-after-end|%s", rq.MsgType, je.Op), "request type %d of the honest client, sent after its session had ended at event %d, caused effect %s", rq.MsgType, e, je.Op)
			}
		}
	}
	// a participant that skipped a step: from the deviation on, none of its
	// requests may have one of the effects, and the skipped-to request must be
	// refused
	if deviant != nil && deviant.deviated > 0 {
		o.Nontrivial = true
		o.Fault("participant-" + strings.SplitN(strings.SplitN(pl.Deviant, "+", 2)[0], ":", 2)[0])
		for _, ev := range s.Net.Log {
			if ev.Phase != "req" || ev.From != "dev1" || ev.Seq <= deviant.deviated || ev.To != "owner1" {
				continue
			}
			var bad []string
			for _, e := range journal[min(ev.EffFrom, len(journal)):min(ev.EffTo, len(journal))] {
				if c08Forbidden[e.Op] && e.Node == "owner1" {
					bad = append(bad, e.Op)
				}
			}
			if len(bad) > 0 {
				o.Class = "EFFECT-AFTER-SKIPPED-STEP"
				o.Violate("C08", "effect-after-skipped-step", fmt.Sprintf("%s|%d|%s", strings.SplitN(pl.Deviant, ":", 2)[0], ev.MsgType, bad[0]), "device that deviated (%s) sent type %d and caused effects %v", pl.Deviant, ev.MsgType, bad)
			}
		}
	}
	// global: every forbidden effect lies in the window of an honest request or of a judged-as-duplicate one
	for i, e := range journal {
		if !c08Forbidden[e.Op] {
			continue
		}
		covered := false
		for _, ev := range s.Net.Log {
			if ev.Phase == "req" && i >= ev.EffFrom && i < ev.EffTo {
				covered = true
			}
		}
		if !covered && e.Token != "" {
			o.Violate("C08", "effect-outside-any-request", e.Op, "effect %s (node %s) journalled outside the handling of any request", e.Op, e.Node)
		}
	}
	ok := 0
	for _, r := range results {
		if r == "ok" {
			ok++
		}
	}
	if deviant != nil && deviant.onDeviate == nil && ok < pl.Devices-1 {
		o.Violate("C08", "honest-run-must-succeed", pl.Key, "the devices that did not deviate ended %v", results)
	}
	if len(injected) == 0 && deviant == nil && ok != pl.Devices {
		o.Violate("C08", "honest-run-must-succeed", pl.Key, "without any adversary request the honest devices ended %v", results)
	}
	if o.Class == "" {
		o.Class = fmt.Sprintf("clean:honest-ok=%d/%d", ok, pl.Devices)
	}
	o.Probe(fmt.Sprintf("judged=%d", min(judged, 3)))
	if either > 0 {
		o.Probe("authentic-duplicate-not-judged")
	}
	o.Sample = map[string]any{"injected": len(injected), "judged": judged, "duplicates_not_judged": either, "honest": results, "steps": k.Steps}
	_ = protocol.ErrorMsgType
}
