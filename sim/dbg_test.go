package fdosim

import (
	"encoding/json"
	"fmt"
	"os"
	"strconv"
	"testing"
)

func TestDbgPlan(t *testing.T) {
	p := props[os.Getenv("VERIF_PROP")]
	p.Prepare(t, "quick", 1)
	i, _ := strconv.Atoi(os.Getenv("PLAN"))
	pl := p.Plan("quick", 1, i)
	b, _ := json.Marshal(pl)
	fmt.Println(string(b))
	if os.Getenv("RUN") != "" {
		o := RunPlan(t, p, pl)
		b, _ = json.Marshal(o)
		fmt.Println(string(b))
	}
}
