package fdosim

import (
	"bytes"
	"context"
	"crypto"
	"crypto/hmac"
	"crypto/sha256"
	"crypto/sha512"
	"encoding/json"
	"fmt"
	"hash"
	"math/rand/v2"
	"strings"
	"testing"

	"github.com/fido-device-onboard/go-fdo/cbor"
	"github.com/fido-device-onboard/go-fdo/kex"
	"github.com/fido-device-onboard/go-fdo/protocol"
	"github.com/fido-device-onboard/go-fdo/serviceinfo"
)

// C03 — ownership handover leaves device credential and stored voucher in
// agreement, and is atomic with respect to any cut before the owner accepted
// Done.

type C03Cut struct {
	Round int    `json:"round"`         // 0 = DI, r>=1 = r-th TO2
	Index int    `json:"index"`         // ordinal of the request within that protocol run
	Kind  string `json:"kind"`          // drop_req | drop_resp | err_resp | restart_before | restart_after | disk_err | hmac_err | ctx_cancel_stmt
	Arg   string `json:"arg,omitempty"` // restart mode (durable|volatile|kill|clean) or state method
	Nth   int    `json:"nth,omitempty"` // disk_err: fail the n-th call of the method
}

type C03Plan struct {
	Seed   uint64  `json:"seed"`
	Key    string  `json:"key"`
	Enc    uint8   `json:"enc"`
	Kex    string  `json:"kex"`
	Cipher string  `json:"cipher"`
	Reuse  bool    `json:"reuse"`
	Bypass bool    `json:"bypass"`
	Rounds int     `json:"rounds"`
	Sql    bool    `json:"sql"`
	Cut    *C03Cut `json:"cut,omitempty"`
	// NoChain: the owners' key stores hold bare keys (no certificate chain)
	// although vouchers are extended to the owners' certificate chains.
	NoChain bool `json:"owner_store_without_chain,omitempty"`
	// RvShape varies who supplies rendezvous directives: 0 manufacturer and
	// owners both do, 1 the owners replace them by an empty list, 2 only the
	// owners supply any, 3 nobody does.
	RvShape int `json:"rv_shape,omitempty"`
}

type c03 struct {
	plans map[string][]C03Plan
}

func init() { Register(&c03{plans: map[string][]C03Plan{}}) }

func (p *c03) ID() string    { return "C03" }
func (p *c03) Level() string { return "fault_enumeration" }
func (p *c03) NewPlan() any  { return &C03Plan{} }
func (p *c03) Rule() string {
	return "histories DI -> (extend/resell -> [TO0 -> TO1] -> TO2) x 1..3 with the credential written to and re-read from its blob encoding between protocols; fault-free for every key type x encoding x reuse x rv-bypass (sampled kex/cipher) and, per configuration family, every cut kind (request lost, response lost, peer answers 255, node restart before/after handling with durable or volatile sessions / sqlite kill or clean reopen, storage error on the n-th call of each state method) at every request index of DI and of TO2; oracles: independent recomputation of header HMAC, manufacturer-key hash, GUID, rendezvous info, certificate-chain hash from the stored voucher bytes (refcbor + crypto/hmac), store-untouched-before-Done, no credential without Done2, success of the next round, retry liveness after the cut; non-trivial = a cut fired or >=2 rounds completed; distinct = distinct (cut, outcome, log hash)"
}
func (p *c03) Exhaustive(string) bool { return false }
func (p *c03) Components() map[string][]string {
	return map[string][]string{
		"real": {"fdo.DI / fdo.TO2 / fdo.TO1 device roles", "DIServer, TO2Server (incl. Resell), TO0/TO1 servers", "blob.DeviceCredential encoding", "ExtendVoucher", "sqlite.DB (sql plans)", "http.Handler/Transport"},
		"stub": {"network cuts", "simstore with injected storage errors and restart modes", "clock", "crypto randomness", "out-of-band voucher transfer"},
	}
}
func (p *c03) Assumptions() []string {
	return []string{
		"'Done accepted, Done2 lost' leaves owner and device out of step by protocol design: counted by a probe, excluded from the retry-liveness oracle",
		"agreement is recomputed by the harness from the stored voucher bytes with the device secret (no library verification function is trusted for it)",
	}
}

var c03Methods = []string{"NewToken", "SetGUID", "GUID", "Voucher", "OwnerKey", "SetProveDeviceNonce", "ProveDeviceNonce", "SetXSession", "XSession", "SetSetupDeviceNonce", "SetupDeviceNonce",
	"SetReplacementGUID", "ReplacementGUID", "SetRvInfo", "RvInfo", "SetMTU", "MTU", "SetReplacementHmac", "ReplacementHmac", "SetDevmod", "Devmod", "ReplaceVoucher", "InvalidateToken",
	"SetDeviceCertChain", "DeviceCertChain", "SetIncompleteVoucherHeader", "IncompleteVoucherHeader", "AddVoucher", "ManufacturerKey"}

func (p *c03) Prepare(t *testing.T, tier string, seed uint64) {
	if _, ok := p.plans[tier]; ok {
		return
	}
	var plans []C03Plan
	i := 0
	ciphers := []string{"A128GCM", "A256GCM", "COSEAES128CTR", "COSEAES256CBC", "A192GCM", "COSEAES128CBC", "COSEAES256CTR"}
	next := func(k KeyCfg) C03Plan {
		cfg := k
		pl := C03Plan{Seed: seed*1_000_003 + uint64(i)*7 + 3, Key: k.Name, Enc: uint8(k.Enc), Kex: string(defaultKex(cfg)), Cipher: ciphers[i%len(ciphers)]}
		if k.IsRSA() {
			pl.Kex = []string{"DHKEXid14", "ASYMKEX2048", "DHKEXid15", "ASYMKEX3072", "ECDH256", "ECDH384"}[i%6]
		}
		i++
		return pl
	}
	// fault-free histories over the configuration space
	for _, k := range KeyTypes {
		for _, e := range KeyEncs {
			if k.IsRSA() && e == protocol.CoseKeyEnc {
				continue
			}
			k.Enc = e
			for _, reuse := range []bool{false, true} {
				for _, bypass := range []bool{false, true} {
					for _, rounds := range []int{2, 3} {
						pl := next(k)
						pl.Reuse, pl.Bypass, pl.Rounds, pl.Sql = reuse, bypass, rounds, i%5 == 0
						plans = append(plans, pl)
						if !reuse && rounds == 3 {
							for shape := 1; shape <= 3; shape++ {
								rs := next(k)
								rs.Bypass, rs.Rounds, rs.RvShape, rs.Sql = bypass, rounds, shape, (i+shape)%4 == 0
								plans = append(plans, rs)
							}
						}
						if e == protocol.X5ChainKeyEnc && !pl.Sql {
							nc := next(k)
							nc.Reuse, nc.Bypass, nc.Rounds, nc.NoChain = reuse, bypass, rounds, true
							plans = append(plans, nc)
						}
					}
				}
			}
		}
	}
	// cut sweep
	fams := c01SweepFams
	if tier != "thorough" {
		fams = fams[:2]
	}
	for _, f := range fams {
		k := keyCfgByName(f.Key, f.Enc)
		for _, sql := range []bool{false, true} {
			// DI: requests 0..1
			for idx := 0; idx < 2; idx++ {
				for _, kind := range []string{"drop_req", "drop_resp", "err_resp", "restart_before", "restart_after"} {
					for _, mode := range c03Modes(kind, sql) {
						pl := next(k)
						pl.Rounds, pl.Sql = 1, sql
						pl.Cut = &C03Cut{Round: 0, Index: idx, Kind: kind, Arg: mode}
						plans = append(plans, pl)
					}
				}
			}
			// TO2 round 1 and 2: request indices 0..11 (HelloDevice .. Done; extra indices are no-ops)
			for _, round := range []int{1, 2} {
				for idx := 0; idx < 12; idx++ {
					for _, kind := range []string{"drop_req", "drop_resp", "err_resp", "restart_before", "restart_after"} {
						for _, mode := range c03Modes(kind, sql) {
							for _, reuse := range []bool{false, true} {
								if reuse && (round == 2 || kind == "err_resp") {
									continue
								}
								pl := next(k)
								pl.Rounds, pl.Sql, pl.Reuse, pl.Bypass = round+1, sql, reuse, idx%2 == 0
								pl.Cut = &C03Cut{Round: round, Index: idx, Kind: kind, Arg: mode}
								plans = append(plans, pl)
							}
						}
					}
				}
			}
		}
		// the request context is cancelled at the n-th SQL statement of the owner's
		// handling of one TO2 request (sqlite owner)
		// (any statement, or the n-th statement that touches the vouchers table)
		for idx := 0; idx < 12; idx++ {
			for _, nth := range []int{1, 2, 3, 5, 8, 13, 21, 34} {
				pl := next(k)
				pl.Rounds, pl.Sql = 2, true
				pl.Cut = &C03Cut{Round: 1, Index: idx, Kind: "ctx_cancel_stmt", Nth: nth}
				plans = append(plans, pl)
			}
			for nth := 1; nth <= 5; nth++ {
				pl := next(k)
				pl.Rounds, pl.Sql = 2, true
				pl.Cut = &C03Cut{Round: 1, Index: idx, Kind: "ctx_cancel_stmt", Arg: "vouchers", Nth: nth}
				plans = append(plans, pl)
			}
		}
		// the device's HMAC engine fails its n-th finalisation during DI / TO2
		for nth := 1; nth <= 3; nth++ {
			for _, round := range []int{0, 1, 2} {
				for _, reuse := range []bool{false, true} {
					pl := next(k)
					pl.Rounds, pl.Reuse = 3, reuse
					pl.Cut = &C03Cut{Round: round, Kind: "hmac_err", Nth: nth}
					plans = append(plans, pl)
				}
			}
		}
		// storage errors (simstore only): n-th call of each method during DI / TO2
		for _, m := range c03Methods {
			for nth := 1; nth <= 3; nth++ {
				for _, round := range []int{0, 1} {
					pl := next(k)
					pl.Rounds = 2
					pl.Cut = &C03Cut{Round: round, Kind: "disk_err", Arg: m, Nth: nth}
					plans = append(plans, pl)
				}
			}
		}
	}
	if tier == "thorough" {
		// random configurations x random cuts
		r := rand.New(rand.NewPCG(seed, 303))
		for n := 0; n < 6000; n++ {
			k := KeyTypes[r.IntN(len(KeyTypes))]
			k.Enc = KeyEncs[r.IntN(2)]
			pl := next(k)
			pl.Rounds, pl.Sql, pl.Reuse, pl.Bypass = 1+r.IntN(3), r.IntN(4) == 0, r.IntN(3) == 0, r.IntN(2) == 0
			kind := []string{"drop_req", "drop_resp", "err_resp", "restart_before", "restart_after"}[r.IntN(5)]
			modes := c03Modes(kind, pl.Sql)
			pl.Cut = &C03Cut{Round: r.IntN(pl.Rounds + 1), Index: r.IntN(12), Kind: kind, Arg: modes[r.IntN(len(modes))]}
			plans = append(plans, pl)
		}
	}
	p.plans[tier] = plans
}

func c03Modes(kind string, sql bool) []string {
	if !strings.HasPrefix(kind, "restart") {
		return []string{""}
	}
	if sql {
		return []string{"kill", "clean"}
	}
	return []string{"durable", "volatile"}
}

func (p *c03) NumPlans(tier string) int { return len(p.plans[tier]) }
func (p *c03) Plan(tier string, seed uint64, i int) any {
	pl := p.plans[tier][i]
	return &pl
}
func (p *c03) Shrink(plan any) []any {
	pl := plan.(*C03Plan)
	var out []any
	if pl.Cut != nil && pl.Rounds > pl.Cut.Round+1 {
		c := *pl
		c.Rounds--
		out = append(out, &c)
	}
	if pl.Cut == nil && pl.Rounds > 1 {
		c := *pl
		c.Rounds--
		out = append(out, &c)
	}
	if pl.Sql && (pl.Cut == nil || (!strings.HasPrefix(pl.Cut.Kind, "restart") && pl.Cut.Kind != "ctx_cancel_stmt")) {
		c := *pl
		c.Sql = false
		out = append(out, &c)
	}
	return out
}

// agreement recomputes, from the stored voucher bytes alone, everything the
// device will check against its credential.
func c03Agreement(voucher []byte, dev *Device) []string {
	var bad []string
	v, err := ParseCBOR(voucher)
	if err != nil || v.Major != 4 || len(v.Kids) != 5 {
		return []string{fmt.Sprintf("stored voucher is not a 5-array: %v", err)}
	}
	hdrBytes := v.Kids[1].Bytes
	hdr := v.Kids[1].Embedded()
	if hdr == nil || hdr.Major != 4 || len(hdr.Kids) < 5 {
		return []string{"voucher header is not embedded CBOR"}
	}
	// header HMAC under the device secret
	mac := v.Kids[2]
	if mac.Major != 4 || len(mac.Kids) != 2 {
		return []string{"voucher HMAC malformed"}
	}
	alg, _ := mac.Kids[0].Int()
	var h func() hash.Hash
	switch alg {
	case 5:
		h = sha256.New
	case 6:
		h = sha512.New384
	default:
		bad = append(bad, fmt.Sprintf("voucher HMAC algorithm %d", alg))
	}
	if h != nil {
		m := hmac.New(h, dev.Secret)
		m.Write(hdrBytes)
		if !hmac.Equal(m.Sum(nil), mac.Kids[1].Bytes) {
			bad = append(bad, "header HMAC does not verify under the device secret")
		}
	}
	// GUID
	if !bytes.Equal(hdr.Kids[1].Bytes, dev.Cred.GUID[:]) {
		bad = append(bad, fmt.Sprintf("GUID: voucher %x, credential %x", hdr.Kids[1].Bytes, dev.Cred.GUID[:]))
	}
	// rendezvous info
	rvCred, _ := cbor.Marshal(dev.Cred.RvInfo)
	if rvHdr := hdr.Kids[2].Encode(nil); !bytes.Equal(rvHdr, rvCred) {
		bad = append(bad, fmt.Sprintf("RvInfo: voucher %x, credential %x", rvHdr, rvCred))
	}
	// device info
	if string(hdr.Kids[3].Bytes) != dev.Cred.DeviceInfo {
		bad = append(bad, "DeviceInfo differs")
	}
	// manufacturer key hash
	var kh hash.Hash
	switch dev.Cred.PublicKeyHash.Algorithm {
	case protocol.Sha256Hash:
		kh = sha256.New()
	case protocol.Sha384Hash:
		kh = sha512.New384()
	default:
		bad = append(bad, fmt.Sprintf("credential key hash algorithm %d", dev.Cred.PublicKeyHash.Algorithm))
	}
	if kh != nil {
		kh.Write(hdr.Kids[4].Encode(nil))
		if !bytes.Equal(kh.Sum(nil), dev.Cred.PublicKeyHash.Value) {
			bad = append(bad, "manufacturer key hash of the credential does not match the voucher header key")
		}
	}
	// certificate chain hash
	if len(hdr.Kids) >= 6 && hdr.Kids[5].Major == 4 && v.Kids[3].Major == 4 {
		calg, _ := hdr.Kids[5].Kids[0].Int()
		var ch hash.Hash = sha256.New()
		if calg == -43 {
			ch = sha512.New384()
		}
		for _, c := range v.Kids[3].Kids {
			ch.Write(c.Bytes)
		}
		if !bytes.Equal(ch.Sum(nil), hdr.Kids[5].Kids[1].Bytes) {
			bad = append(bad, "device certificate chain hash does not match")
		}
	}
	return bad
}

func (p *c03) Exec(env *Env, plan any) {
	pl := plan.(*C03Plan)
	o := env.Out
	cfg := keyCfgByName(pl.Key, pl.Enc)
	spec := CipherSpecByName(pl.Cipher)
	ctx := context.Background()
	sql := map[string]bool{}
	if pl.Sql {
		sql = map[string]bool{"mfg": true, "owner1": true, "owner2": pl.Rounds >= 2 && !pl.Reuse, "owner3": pl.Rounds >= 3 && !pl.Reuse}
	}
	s, cleanup := NewStdSql(nil, cfg, sql)
	if pl.NoChain {
		for _, n := range s.Nodes {
			if n.Sim != nil {
				n.Sim.OwnerKeyNoChain = true
			}
		}
	}
	defer cleanup()
	for _, n := range []string{"owner1", "owner2", "owner3"} {
		s.Nodes[n].Reuse = pl.Reuse
		s.Nodes[n].RvInfo = [][]protocol.RvInstruction{{{Variable: protocol.RVDns, Value: mustCBOR("rv.example")}, {Variable: protocol.RVDevPort, Value: mustCBOR(uint16(8041))}}}
	}
	s.Nodes["mfg"].RvInfo = [][]protocol.RvInstruction{{{Variable: protocol.RVDns, Value: mustCBOR("first-rv.example")}}}
	if pl.RvShape == 1 || pl.RvShape == 3 {
		for _, n := range []string{"owner1", "owner2", "owner3"} {
			s.Nodes[n].RvInfo = nil
		}
	}
	if pl.RvShape == 2 || pl.RvShape == 3 {
		s.Nodes["mfg"].RvInfo = nil
	}
	rec := &ModRecorder{}
	for _, n := range []string{"owner1", "owner2", "owner3"} {
		s.Nodes[n].Mods = &ModSM{Factory: PingFactory(s.Nodes[n], rec, [][]byte{[]byte("hello-device")})}
	}
	opts := func() TO2Opts {
		return TO2Opts{Kex: kex.Suite(pl.Kex), Cipher: spec.ID, AllowReuse: pl.Reuse, Modules: map[string]serviceinfo.DeviceModule{"ping": &PongDevice{Mod: "ping", Rec: rec}}}
	}
	defer func() {
		pj, _ := json.Marshal(pl)
		env.Logf("plan=%s class=%s", pj, o.Class)
		for _, ev := range s.Net.Log {
			env.Logf("%d %s>%s %s %d/%d %d %s %v", ev.Seq, ev.From, ev.To, ev.Phase, ev.MsgType, ev.RespType, ev.Status, ev.BodyHash, ev.Faults)
		}
		for _, pr := range s.Net.Panics {
			o.Probe("panic:" + pr.Frame)
		}
		for k, v := range s.Net.Faults {
			o.Faults[k] += v
		}
	}()

	// --- cut machinery ---
	cutArmed := false
	cutFired := false
	cutNode := ""
	done70Accepted := false
	reqIdx := 0
	restart := func(node, mode string) {
		n := s.Nodes[node]
		switch mode {
		case "durable":
			n.Rebuild()
		case "volatile":
			n.Sim.DropSessions()
			n.Rebuild()
		case "kill":
			_ = n.RestartSql(false)
		case "clean":
			_ = n.RestartSql(true)
		}
	}
	var pendingRestart string
	s.Net.AddHook(func(ev *NetEvent) {
		if ev.Phase == "resp" && ev.OrigRespType == 71 {
			done70Accepted = true
		}
		if !cutArmed || cutFired || pl.Cut == nil || pl.Cut.Kind == "disk_err" || pl.Cut.Kind == "hmac_err" {
			return
		}
		c := pl.Cut
		if ev.Phase == "req" {
			if pendingRestart != "" {
				return
			}
			if reqIdx == c.Index {
				switch c.Kind {
				case "drop_req":
					ev.Drop = true
					ev.Fault("drop_req")
					cutFired = true
				case "restart_before":
					restart(ev.To, c.Arg)
					s.Net.mu.Lock()
					s.Net.Faults["crash:"+c.Arg]++
					s.Net.mu.Unlock()
					cutFired = true
				case "restart_after":
					pendingRestart = ev.To
				case "ctx_cancel_stmt":
					// the device goes away while the owner handles this request: the
					// request context is cancelled at the n-th SQL statement
					if n := s.Nodes[ev.To]; n != nil && n.Sql != nil {
						ev.CancelAtStmt, ev.CancelStmtMatch = c.Nth, c.Arg
						cutFired = true
					}
				}
			}
			reqIdx++
			return
		}
		// response of request reqIdx-1
		if reqIdx-1 == c.Index {
			switch c.Kind {
			case "drop_resp":
				ev.Drop = true
				ev.Fault("drop_resp")
				cutFired = true
			case "err_resp":
				b, _ := cbor.Marshal(protocol.ErrorMessage{Code: 500, PrevMsgType: ev.MsgType, ErrString: "injected failure"})
				ev.Body, ev.RespType, ev.Status = b, 255, 500
				ev.Fault("err_resp")
				cutFired = true
			case "restart_after":
				restart(pendingRestart, c.Arg)
				pendingRestart = ""
				s.Net.mu.Lock()
				s.Net.Faults["crash:"+c.Arg]++
				s.Net.mu.Unlock()
				cutFired = true
			}
		}
	})
	var hmacDev *Device
	arm := func(round int, node string) {
		cutArmed, reqIdx, cutNode = false, 0, node
		if pl.Cut == nil || pl.Cut.Round != round || cutFired {
			return
		}
		cutArmed = true
		if pl.Cut.Kind == "hmac_err" && hmacDev != nil {
			// the device's secure element fails the n-th HMAC finalisation of this protocol run
			hmacDev.HmacSums, hmacDev.HmacFailSum = 0, pl.Cut.Nth
		}
		if pl.Cut.Kind == "disk_err" {
			if sim := s.Nodes[node].Sim; sim != nil {
				sim.FailAt[pl.Cut.Arg] = sim.Calls[pl.Cut.Arg] + pl.Cut.Nth
			}
		}
	}
	disarm := func() {
		cutArmed = false
		if pl.Cut != nil && pl.Cut.Kind == "hmac_err" && hmacDev != nil && hmacDev.HmacFailSum > 0 {
			if hmacDev.HmacFaults > 0 && !cutFired {
				cutFired = true
				s.Net.mu.Lock()
				s.Net.Faults["hmac_err"]++
				s.Net.mu.Unlock()
			}
			hmacDev.HmacFailSum = 0
		}
		if pl.Cut != nil && pl.Cut.Kind == "disk_err" && cutNode != "" {
			if sim := s.Nodes[cutNode].Sim; sim != nil {
				if sim.Fired[pl.Cut.Arg] > 0 && !cutFired {
					cutFired = true
					s.Net.mu.Lock()
					s.Net.Faults["disk_err"]++
					s.Net.mu.Unlock()
				}
				delete(sim.FailAt, pl.Cut.Arg)
			}
		}
	}
	voucherDigest := func(node string) string {
		n := s.Nodes[node]
		if n.Sim != nil {
			return n.Sim.VoucherStoreDigest()
		}
		// sqlite: digest over the vouchers table
		rows, err := n.Sql.DB.DB().Query("SELECT guid, cbor FROM vouchers ORDER BY guid")
		if err != nil {
			return "err:" + err.Error()
		}
		defer rows.Close()
		h := sha256.New()
		for rows.Next() {
			var g, c []byte
			_ = rows.Scan(&g, &c)
			h.Write(g)
			h.Write(c)
		}
		return fmt.Sprintf("%x", h.Sum(nil)[:8])
	}
	storedVoucher := func(node string, g protocol.GUID) ([]byte, bool) {
		n := s.Nodes[node]
		if n.Sim != nil {
			return n.Sim.VoucherBytes(g)
		}
		var c []byte
		if err := n.Sql.DB.DB().QueryRow("SELECT cbor FROM vouchers WHERE guid = ?", g[:]).Scan(&c); err != nil {
			return nil, false
		}
		return c, true
	}

	// --- DI ---
	dev := s.NewDevice("dev1", "dev1", cfg)
	hmacDev = dev
	arm(0, "mfg")
	mfgBefore := voucherDigest("mfg")
	diErr := s.DI(ctx, dev, "mfg")
	disarm()
	if pl.Cut != nil && pl.Cut.Round == 0 && cutFired {
		o.Nontrivial = true
		got13 := false
		for _, ev := range s.Net.Log {
			if ev.Phase == "resp" && ev.RespType == 13 && !ev.Drop && len(ev.Faults) == 0 {
				got13 = true
			}
		}
		if diErr == nil && !got13 {
			o.Violate("C03", "di-credential-without-done", pl.Cut.Kind, "DI returned a credential although DI.Done was never received (cut %+v)", *pl.Cut)
		}
		if diErr != nil {
			// voucher may have been stored only if SetHMAC was accepted
			accepted12 := false
			for _, ev := range s.Net.Log {
				if ev.Phase == "resp" && ev.MsgType == 12 && ev.OrigRespType == 13 {
					accepted12 = true
				}
			}
			if !accepted12 && voucherDigest("mfg") != mfgBefore {
				o.Violate("C03", "di-voucher-without-sethmac", pl.Cut.Kind, "manufacturer voucher store changed although SetHMAC was never accepted (cut %+v)", *pl.Cut)
			}
			// retry liveness: a fresh DI succeeds
			dev = s.NewDevice("dev1", "dev1", cfg)
			if err := s.DI(ctx, dev, "mfg"); err != nil {
				o.Class = "DI-RETRY-FAILED"
				o.Violate("C03", "retry-liveness", "DI|"+pl.Cut.Kind+"|"+pl.Cut.Arg, "after a cut (%+v) and with faults stopped, a fresh DI failed: %v", *pl.Cut, err)
				return
			}
		}
	} else if diErr != nil {
		o.Class = "DI-FAILED"
		o.Violate("C03", "honest-run-must-succeed", "DI|"+pl.Key, "fault-free DI failed for %s enc=%d: %v", pl.Key, pl.Enc, diErr)
		return
	}
	// DI agreement: the manufacturer's stored voucher verifies against the credential
	if vb, ok := storedVoucher("mfg", dev.Cred.GUID); !ok {
		o.Violate("C03", "agreement", "DI|missing", "manufacturer holds no voucher for the credential's GUID after DI")
		return
	} else if bad := c03Agreement(vb, dev); len(bad) > 0 {
		o.Violate("C03", "agreement", "DI|"+pl.Key, "after DI the stored voucher disagrees with the credential: %v", bad)
	}

	// --- rounds ---
	owners := []string{"owner1", "owner2", "owner3"}
	cur := ""
	completed := 0
	for round := 1; round <= pl.Rounds; round++ {
		next := owners[(round-1)%3]
		// transfer: first round from the manufacturer, later by resale
		if pl.Reuse && round > 1 {
			// credential reuse: the same owner onboards the device again with
			// the unchanged voucher and credential
			next = cur
		} else if round == 1 {
			if _, err := s.ExtendTo(ctx, "mfg", dev.Cred.GUID, cfg, "mfg", next, next); err != nil {
				o.Violate("C03", "honest-run-must-succeed", "extend|"+pl.Key, "extension to the first owner failed: %v", err)
				return
			}
		} else {
			var pub crypto.PublicKey = s.Keys.Get(next, cfg.Fam()).Key.Public()
			if cfg.Enc == protocol.X5ChainKeyEnc {
				pub = s.Keys.Get(next, cfg.Fam()).Chain
			}
			ov, err := s.Nodes[cur].TO2.Resell(ctx, dev.Cred.GUID, pub, nil)
			if err != nil {
				o.Class = "RESELL-FAILED"
				o.Violate("C03", "next-round", fmt.Sprintf("resell|round%d|%s", round, pl.Key), "resale of the replacement voucher failed in round %d: %v", round, err)
				return
			}
			if err := s.Nodes[next].Store.AddVoucher(ctx, ov); err != nil {
				o.Violate("C03", "honest-run-must-succeed", "addvoucher", "%v", err)
				return
			}
		}
		cur = next
		attempt := func() (bool, error) {
			var to1d *to1dT
			if !pl.Bypass {
				if _, err := s.TO0(ctx, cur, "rv", dev.Cred.GUID, 3600); err != nil {
					return false, fmt.Errorf("TO0: %w", err)
				}
				blob, err := s.TO1(ctx, dev, "rv")
				if err != nil {
					return false, fmt.Errorf("TO1: %w", err)
				}
				to1d = blob
			}
			return s.TO2(ctx, dev, cur, to1d, opts())
		}
		credBefore := append([]byte(nil), dev.CredBlob...)
		guidBefore := dev.Cred.GUID
		storeBefore := voucherDigest(cur)
		done70Accepted = false
		// the cut applies to the TO2 messages only: TO0/TO1 run before arming
		var to1d *to1dT
		var preErr error
		if !pl.Bypass {
			if _, preErr = s.TO0(ctx, cur, "rv", dev.Cred.GUID, 3600); preErr == nil {
				to1d, preErr = s.TO1(ctx, dev, "rv")
			}
		}
		if preErr != nil {
			o.Violate("C03", "honest-run-must-succeed", "TO0/TO1|"+pl.Key, "round %d: %v", round, preErr)
			return
		}
		arm(round, cur)
		reused, err := s.TO2(ctx, dev, cur, to1d, opts())
		disarm()
		cutHere := pl.Cut != nil && pl.Cut.Round == round && cutFired
		if cutHere {
			o.Nontrivial = true
		}
		if err != nil {
			if !cutHere {
				o.Class = "TO2-FAILED"
				o.Violate("C03", "honest-run-must-succeed", fmt.Sprintf("TO2|round%d|%s|%s", round, pl.Key, pl.Kex), "fault-free TO2 of round %d failed for %s/%s/%s reuse=%v bypass=%v sql=%v: %v", round, pl.Key, pl.Kex, pl.Cipher, pl.Reuse, pl.Bypass, pl.Sql, err)
				return
			}
			// atomicity
			if string(dev.CredBlob) != string(credBefore) {
				o.Violate("C03", "credential-without-success", pl.Cut.Kind, "credential changed although TO2 returned an error")
			}
			if !done70Accepted && voucherDigest(cur) != storeBefore {
				o.Class = "STORE-CHANGED-BEFORE-DONE"
				o.Violate("C03", "store-touched-before-done", pl.Cut.Kind+"|"+pl.Cut.Arg, "owner voucher store changed although the owner never accepted Done (cut %+v)", *pl.Cut)
				return
			}
			if done70Accepted {
				o.Probe("done-accepted-done2-lost")
				o.Class = "done2-lost"
				// the owner now holds the replacement voucher for a GUID the device does not know
				return
			}
			// retry liveness
			_, rerr := attempt()
			if rerr != nil {
				o.Class = "RETRY-FAILED"
				o.Violate("C03", "retry-liveness", fmt.Sprintf("TO2|%s|%s|idx%d", pl.Cut.Kind, pl.Cut.Arg, min(pl.Cut.Index, 9)), "after a cut (%+v) and with faults stopped, a fresh TO2 attempt failed: %v", *pl.Cut, rerr)
				return
			}
			reused = pl.Reuse
		}
		completed++
		// agreement after success
		if pl.Reuse {
			if !reused {
				o.Violate("C03", "reuse", "not-reused", "credential reuse expected")
			}
			if string(dev.CredBlob) != string(credBefore) {
				o.Violate("C03", "reuse", "credential-changed", "credential changed under credential reuse")
			}
			if voucherDigest(cur) != storeBefore {
				o.Violate("C03", "reuse", "voucher-changed", "owner voucher store changed under credential reuse")
			}
		} else {
			if dev.Cred.GUID == guidBefore {
				o.Violate("C03", "agreement", "guid-not-replaced", "GUID not replaced")
			}
			vb, ok := storedVoucher(cur, dev.Cred.GUID)
			if !ok {
				o.Class = "REPLACEMENT-MISSING"
				o.Violate("C03", "agreement", "replacement-missing|"+pl.Key, "owner holds no voucher under the device's new GUID after TO2 round %d", round)
				return
			}
			if _, old := storedVoucher(cur, guidBefore); old {
				o.Violate("C03", "agreement", "old-voucher-kept", "owner still holds the voucher under the old GUID")
			}
			if bad := c03Agreement(vb, dev); len(bad) > 0 {
				o.Class = "DISAGREEMENT"
				o.Violate("C03", "agreement", fmt.Sprintf("TO2|%s|%s", pl.Key, bad[0][:min(len(bad[0]), 24)]), "after TO2 round %d the stored replacement voucher disagrees with the device credential: %v (%s/%s/%s)", round, bad, pl.Key, pl.Kex, pl.Cipher)
				return
			}
			if v, err := ParseCBOR(vb); err == nil && len(v.Kids[4].Kids) != 0 {
				o.Violate("C03", "agreement", "entries", "replacement voucher has %d entries", len(v.Kids[4].Kids))
			}
		}
	}
	if completed >= 2 {
		o.Nontrivial = true
	}
	if o.Class == "" {
		o.Class = fmt.Sprintf("ok:rounds=%d", completed)
		if pl.Cut != nil && cutFired {
			o.Class += ":cut-survived"
		} else if pl.Cut != nil {
			o.Class += ":cut-not-reached"
		}
	}
	o.Sample = map[string]any{"rounds": completed, "cut": pl.Cut, "cut_fired": cutFired}
}

func mustCBOR(v any) []byte {
	b, err := cbor.Marshal(v)
	if err != nil {
		panic(err)
	}
	return b
}
