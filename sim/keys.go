package fdosim

import (
	"crypto"
	"crypto/ecdsa"
	"crypto/rsa"
	"crypto/x509"
	"encoding/json"
	"fmt"
	"os"
	"path/filepath"
	"sync"

	"github.com/fido-device-onboard/go-fdo/protocol"
)

// KeyFam is the family a long-term key belongs to in the committed pool.
type KeyFam string

const (
	P256    KeyFam = "p256"
	P384    KeyFam = "p384"
	RSA2048 KeyFam = "rsa2048"
	RSA3072 KeyFam = "rsa3072"
)

var AllFams = []KeyFam{P256, P384, RSA2048, RSA3072}

// KeyEntry is one long-term key with a self-signed CA certificate (valid
// 1990..2200 so it holds under the bubble clock that starts in 2000).
type KeyEntry struct {
	Role  string
	Fam   KeyFam
	Key   crypto.Signer
	Cert  *x509.Certificate
	Chain []*x509.Certificate
}

type KeyPool struct{ m map[string]*KeyEntry }

var (
	poolOnce sync.Once
	pool     *KeyPool
	poolErr  error
)

// VerifRoot is /verif unless VERIF_ROOT overrides it.
func VerifRoot() string {
	if r := os.Getenv("VERIF_ROOT"); r != "" {
		return r
	}
	return "/verif"
}

// LoadKeys loads the committed key pool once per process.
func LoadKeys() (*KeyPool, error) {
	poolOnce.Do(func() {
		b, err := os.ReadFile(filepath.Join(VerifRoot(), "testdata", "keys.json"))
		if err != nil {
			poolErr = err
			return
		}
		var raw map[string]struct {
			PKCS8 []byte `json:"pkcs8"`
			Cert  []byte `json:"cert"`
		}
		if err := json.Unmarshal(b, &raw); err != nil {
			poolErr = err
			return
		}
		p := &KeyPool{m: map[string]*KeyEntry{}}
		for name, e := range raw {
			k, err := x509.ParsePKCS8PrivateKey(e.PKCS8)
			if err != nil {
				poolErr = fmt.Errorf("%s: %w", name, err)
				return
			}
			c, err := x509.ParseCertificate(e.Cert)
			if err != nil {
				poolErr = fmt.Errorf("%s: %w", name, err)
				return
			}
			role, fam := filepath.Split(name)
			role = role[:len(role)-1]
			p.m[name] = &KeyEntry{Role: role, Fam: KeyFam(fam), Key: k.(crypto.Signer), Cert: c, Chain: []*x509.Certificate{c}}
		}
		pool = p
	})
	return pool, poolErr
}

func (p *KeyPool) Get(role string, fam KeyFam) *KeyEntry {
	e := p.m[role+"/"+string(fam)]
	if e == nil {
		panic("no key " + role + "/" + string(fam))
	}
	return e
}

// KeyCfg is one of the six key types of the properties plus an encoding.
type KeyCfg struct {
	Name string               `json:"name"`
	Type protocol.KeyType     `json:"type"`
	Bits int                  `json:"bits"` // RSA modulus size, 0 for EC
	Enc  protocol.KeyEncoding `json:"enc"`
}

func (c KeyCfg) Fam() KeyFam {
	switch c.Type {
	case protocol.Secp256r1KeyType:
		return P256
	case protocol.Secp384r1KeyType:
		return P384
	case protocol.Rsa2048RestrKeyType:
		return RSA2048
	default:
		if c.Bits == 2048 {
			return RSA2048
		}
		return RSA3072
	}
}

func (c KeyCfg) IsRSA() bool {
	return c.Type != protocol.Secp256r1KeyType && c.Type != protocol.Secp384r1KeyType
}
func (c KeyCfg) PSS() bool { return c.Type == protocol.RsaPssKeyType }

// KeyTypes lists the six key types the properties quantify over.
var KeyTypes = []KeyCfg{
	{Name: "P-256", Type: protocol.Secp256r1KeyType},
	{Name: "P-384", Type: protocol.Secp384r1KeyType},
	{Name: "RSA2048RESTR", Type: protocol.Rsa2048RestrKeyType, Bits: 2048},
	{Name: "RSA-PKCS-3072", Type: protocol.RsaPkcsKeyType, Bits: 3072},
	{Name: "RSA-PSS-2048", Type: protocol.RsaPssKeyType, Bits: 2048},
	{Name: "RSA-PSS-3072", Type: protocol.RsaPssKeyType, Bits: 3072},
}

var KeyEncs = []protocol.KeyEncoding{protocol.X509KeyEnc, protocol.X5ChainKeyEnc, protocol.CoseKeyEnc}

// PublicKeyFor encodes e's public key as a protocol.PublicKey of cfg's type
// and encoding.
func PublicKeyFor(cfg KeyCfg, e *KeyEntry) (*protocol.PublicKey, error) {
	switch cfg.Enc {
	case protocol.X5ChainKeyEnc:
		return protocol.NewPublicKey(cfg.Type, e.Chain, false)
	default:
		switch pub := e.Key.Public().(type) {
		case *ecdsa.PublicKey:
			return protocol.NewPublicKey(cfg.Type, pub, cfg.Enc == protocol.CoseKeyEnc)
		case *rsa.PublicKey:
			return protocol.NewPublicKey(cfg.Type, pub, cfg.Enc == protocol.CoseKeyEnc)
		}
	}
	return nil, fmt.Errorf("unsupported key")
}
