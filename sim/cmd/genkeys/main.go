// genkeys writes the committed key pool /verif/testdata/keys.json.
//
// Long-term keys are never generated at run time (RSA generation is slow and
// not a function of the run seed); the pool is generated once and committed.
package main

import (
	"crypto"
	"crypto/ecdsa"
	"crypto/elliptic"
	"crypto/rand"
	"crypto/rsa"
	"crypto/x509"
	"crypto/x509/pkix"
	"encoding/json"
	"fmt"
	"math/big"
	"os"
	"time"
)

type entry struct {
	PKCS8 []byte `json:"pkcs8"`
	Cert  []byte `json:"cert"` // self-signed CA certificate, valid 1990..2200
}

func main() {
	roles := []string{"mfg", "mfg2", "owner1", "owner2", "owner3", "devca", "dev1", "dev2", "dev3", "dev4", "att1", "att2"}
	types := []string{"p256", "p384", "rsa2048", "rsa3072"}
	out := map[string]entry{}
	serial := int64(1)
	for _, r := range roles {
		for _, t := range types {
			var key crypto.Signer
			var err error
			switch t {
			case "p256":
				key, err = ecdsa.GenerateKey(elliptic.P256(), rand.Reader)
			case "p384":
				key, err = ecdsa.GenerateKey(elliptic.P384(), rand.Reader)
			case "rsa2048":
				key, err = rsa.GenerateKey(rand.Reader, 2048)
			case "rsa3072":
				key, err = rsa.GenerateKey(rand.Reader, 3072)
			}
			if err != nil {
				panic(err)
			}
			der, err := x509.MarshalPKCS8PrivateKey(key)
			if err != nil {
				panic(err)
			}
			tmpl := &x509.Certificate{
				SerialNumber:          big.NewInt(serial),
				Subject:               pkix.Name{CommonName: r + "-" + t},
				NotBefore:             time.Date(1990, 1, 1, 0, 0, 0, 0, time.UTC),
				NotAfter:              time.Date(2200, 1, 1, 0, 0, 0, 0, time.UTC),
				BasicConstraintsValid: true,
				IsCA:                  true,
				KeyUsage:              x509.KeyUsageCertSign | x509.KeyUsageDigitalSignature,
			}
			serial++
			cert, err := x509.CreateCertificate(rand.Reader, tmpl, tmpl, key.Public(), key)
			if err != nil {
				panic(err)
			}
			out[r+"/"+t] = entry{PKCS8: der, Cert: cert}
			fmt.Fprintln(os.Stderr, "generated", r, t)
		}
	}
	b, _ := json.MarshalIndent(out, "", " ")
	if err := os.WriteFile(os.Args[1], b, 0o644); err != nil {
		panic(err)
	}
}
