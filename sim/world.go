package fdosim

import (
	"context"
	"crypto"
	"crypto/ecdsa"
	"crypto/hmac"
	cryptorand "crypto/rand"
	"crypto/rsa"
	"crypto/sha256"
	"crypto/sha512"
	"crypto/x509"
	"crypto/x509/pkix"
	"errors"
	"fmt"
	"hash"
	"net/http"
	"sync"

	fdo "github.com/fido-device-onboard/go-fdo"
	"github.com/fido-device-onboard/go-fdo/blob"
	"github.com/fido-device-onboard/go-fdo/cbor"
	"github.com/fido-device-onboard/go-fdo/cose"
	"github.com/fido-device-onboard/go-fdo/custom"
	fdo_http "github.com/fido-device-onboard/go-fdo/http"
	"github.com/fido-device-onboard/go-fdo/kex"
	"github.com/fido-device-onboard/go-fdo/protocol"
	"github.com/fido-device-onboard/go-fdo/serviceinfo"
)

type to1dT = cose.Sign1[protocol.To1d, []byte]

// NamedModule is one owner service-info module of a session.
type NamedModule struct {
	Name string
	Mod  serviceinfo.OwnerModule
}

// ModSM is the harness' per-session owner module state machine (stub for
// serviceinfo.ModuleStateMachine, keyed by the session token).
type ModSM struct {
	mu      sync.Mutex
	tok     func(context.Context) (string, bool)
	sess    map[string]*modSess
	Factory func(ctx context.Context, token string) []NamedModule
	Journal *Journal
	node    string
}

type modSess struct {
	mods []NamedModule
	idx  int
}

func (m *ModSM) Module(ctx context.Context) (string, serviceinfo.OwnerModule, error) {
	t, _ := m.tok(ctx)
	m.mu.Lock()
	defer m.mu.Unlock()
	s := m.sess[t]
	if s == nil || s.idx >= len(s.mods) {
		return "", nil, fmt.Errorf("no current owner module")
	}
	return s.mods[s.idx].Name, s.mods[s.idx].Mod, nil
}

func (m *ModSM) NextModule(ctx context.Context) (bool, error) {
	t, _ := m.tok(ctx)
	m.mu.Lock()
	s := m.sess[t]
	m.mu.Unlock()
	if s == nil {
		var mods []NamedModule
		if m.Factory != nil {
			mods = m.Factory(ctx, t)
		}
		s = &modSess{mods: mods}
		m.mu.Lock()
		m.sess[t] = s
		m.mu.Unlock()
		m.Journal.Add(Effect{Node: m.node, Token: t, Op: "module.start", Note: fmt.Sprintf("n=%d", len(mods))})
		return len(mods) > 0, nil
	}
	m.mu.Lock()
	defer m.mu.Unlock()
	s.idx++
	return s.idx < len(s.mods), nil
}

func (m *ModSM) CleanupModules(ctx context.Context) {
	t, _ := m.tok(ctx)
	m.mu.Lock()
	delete(m.sess, t)
	m.mu.Unlock()
}

// Node is one simulated server (manufacturer, rendezvous or owner service).
// All four responders are always wired; which ones are used is up to the
// scenario.
type Node struct {
	Name    string
	Store   Backend
	Sim     *SimStore // non-nil when Store is the in-memory backend
	Sql     *SqlNode  // non-nil when Store is the real sqlite backend
	Journal *Journal
	Mods    *ModSM

	DI  *fdo.DIServer[custom.DeviceMfgInfo]
	TO0 *fdo.TO0Server
	TO1 *fdo.TO1Server
	TO2 *fdo.TO2Server

	// Configuration read by the responder callbacks.
	DevCA        *KeyEntry
	MfgBits      int // RSA size used for RSA-PKCS/PSS manufacturer keys
	Reuse        bool
	RvInfo       [][]protocol.RvInstruction
	AcceptTTL    func(ctx context.Context, ov fdo.Voucher, req uint32) (uint32, error)
	MaxDevSISize uint16 // 0: unset
	// MfgKeyOverride makes the DI responder use a manufacturer key of another
	// type/size than the device's key type calls for.
	MfgKeyOverride func(protocol.KeyType) (protocol.KeyType, int)
	MaxContent     int64 // http.Handler.MaxContentLength (0: the library default of 65535)
	VerifyOV       func(context.Context, fdo.Voucher) error

	// Roles, when non-empty, makes this a partial deployment: the HTTP handler
	// gets a responder only for the listed protocols ("DI", "TO0", "TO1",
	// "TO2"); the others stay nil, which the handler documents as unsupported.
	Roles []string
	// WrapTO2 optionally wraps the TO2 responder (tunnel taps, rogue owner).
	WrapTO2 func(protocol.Responder) protocol.Responder

	handler http.Handler
}

// Handler returns the node's HTTP handler, building it on first use.
func (n *Node) Handler() http.Handler {
	if n.handler == nil {
		n.Rebuild()
	}
	return n.handler
}

// Rebuild constructs fresh responder and handler objects over the node's
// store: what a process restart does to everything that is not in the store.
func (n *Node) Rebuild() {
	st := n.Store
	n.DI = &fdo.DIServer[custom.DeviceMfgInfo]{
		Session:  st,
		Vouchers: st,
		SignDeviceCertificate: func(info *custom.DeviceMfgInfo) ([]*x509.Certificate, error) {
			return custom.SignDeviceCertificate(n.DevCA.Key, n.DevCA.Chain)(info)
		},
		DeviceInfo: func(ctx context.Context, info *custom.DeviceMfgInfo, _ []*x509.Certificate) (string, protocol.PublicKey, error) {
			if info == nil {
				return "", protocol.PublicKey{}, fmt.Errorf("manufacturing info required")
			}
			bits := n.MfgBits
			mfgType := info.KeyType
			if n.MfgKeyOverride != nil {
				// a manufacturer that answers with a key of another family than
				// the device asked for
				mfgType, bits = n.MfgKeyOverride(info.KeyType)
			}
			key, chain, err := st.ManufacturerKey(ctx, mfgType, bits)
			if err != nil {
				return "", protocol.PublicKey{}, fmt.Errorf("manufacturer key: %w", err)
			}
			var pk *protocol.PublicKey
			switch info.KeyEncoding {
			case protocol.X5ChainKeyEnc:
				pk, err = protocol.NewPublicKey(mfgType, chain, false)
			case protocol.X509KeyEnc, protocol.CoseKeyEnc:
				switch pub := key.Public().(type) {
				case *ecdsa.PublicKey:
					pk, err = protocol.NewPublicKey(mfgType, pub, info.KeyEncoding == protocol.CoseKeyEnc)
				case *rsa.PublicKey:
					pk, err = protocol.NewPublicKey(mfgType, pub, info.KeyEncoding == protocol.CoseKeyEnc)
				}
			default:
				err = fmt.Errorf("unsupported key encoding %d", info.KeyEncoding)
			}
			if err != nil {
				return "", protocol.PublicKey{}, err
			}
			return info.DeviceInfo, *pk, nil
		},
		RvInfo: func(context.Context, *fdo.Voucher) ([][]protocol.RvInstruction, error) { return n.rvinfo(), nil },
	}
	n.TO0 = &fdo.TO0Server{Session: st, RVBlobs: st}
	if n.AcceptTTL != nil {
		n.TO0.AcceptVoucher = n.AcceptTTL
	}
	n.TO1 = &fdo.TO1Server{Session: st, RVBlobs: st}
	if n.Mods == nil {
		n.Mods = &ModSM{}
	}
	n.Mods.tok = st.TokenFromContext
	n.Mods.sess = map[string]*modSess{}
	n.Mods.Journal = n.Journal
	n.Mods.node = n.Name
	n.TO2 = &fdo.TO2Server{
		Session:              st,
		Modules:              n.Mods,
		Vouchers:             st,
		OwnerKeys:            st,
		VouchersForExtension: st,
		RvInfo:               func(context.Context, fdo.Voucher) ([][]protocol.RvInstruction, error) { return n.rvinfo(), nil },
		ReuseCredential:      func(context.Context, fdo.Voucher) (bool, error) { return n.Reuse, nil },
		VerifyVoucher:        n.VerifyOV,
	}
	if n.MaxDevSISize != 0 {
		n.TO2.MaxDeviceServiceInfoSize = func(context.Context, fdo.Voucher) (uint16, error) { return n.MaxDevSISize, nil }
	}
	var to2 protocol.Responder = n.TO2
	if n.WrapTO2 != nil {
		to2 = n.WrapTO2(n.TO2)
	}
	h := &fdo_http.Handler{Tokens: st, DIResponder: n.DI, TO0Responder: n.TO0, TO1Responder: n.TO1, TO2Responder: to2, MaxContentLength: n.MaxContent}
	n.handler = h
	if len(n.Roles) > 0 {
		has := func(r string) bool {
			for _, x := range n.Roles {
				if x == r {
					return true
				}
			}
			return false
		}
		if !has("DI") {
			h.DIResponder = nil
		}
		if !has("TO0") {
			h.TO0Responder = nil
		}
		if !has("TO1") {
			h.TO1Responder = nil
		}
		if !has("TO2") {
			h.TO2Responder = nil
		}
	}
}

func (n *Node) rvinfo() [][]protocol.RvInstruction {
	if n.RvInfo == nil {
		return [][]protocol.RvInstruction{}
	}
	return n.RvInfo
}

// World is one simulated deployment.
type World struct {
	// MaxContent is the transports' MaxContentLength (0: library default). A
	// deployment that negotiates service-info MTUs near 65535 has to raise the
	// limits of its HTTP layer, as the message adds framing and encryption.
	MaxContent int64
	K          *Kernel
	Net        *Net
	Journal    *Journal
	Keys       *KeyPool
	Nodes      map[string]*Node
}

func NewWorld(k *Kernel) *World {
	keys, err := LoadKeys()
	if err != nil {
		panic(err)
	}
	w := &World{K: k, Net: NewNet(k), Journal: &Journal{}, Keys: keys, Nodes: map[string]*Node{}}
	w.Net.Journal = w.Journal
	InstallHooks(k)
	return w
}

// AddSimNode creates a node on the in-memory backend holding, for every key
// family, the manufacturer key of role mfgRole and the owner key of role
// ownerRole (either may be "").
func (w *World) AddSimNode(name, mfgRole, ownerRole string) *Node {
	st := NewSimStore(name, w.Journal)
	if w.K != nil {
		st.SetYield(func(site string) { w.K.Yield(site) })
	}
	n := &Node{Name: name, Store: st, Sim: st, Journal: w.Journal, MfgBits: 3072}
	w.provision(func(t protocol.KeyType, bits int, e *KeyEntry) { st.AddMfgKey(t, bits, e) }, mfgRole)
	w.provision(func(t protocol.KeyType, bits int, e *KeyEntry) { st.AddOwnerKey(t, bits, e) }, ownerRole)
	n.DevCA = w.Keys.Get("devca", P384)
	w.Nodes[name] = n
	w.Net.AddNode(n)
	return n
}

func (w *World) provision(add func(protocol.KeyType, int, *KeyEntry), role string) {
	if role == "" {
		return
	}
	add(protocol.Secp256r1KeyType, 0, w.Keys.Get(role, P256))
	add(protocol.Secp384r1KeyType, 0, w.Keys.Get(role, P384))
	add(protocol.Rsa2048RestrKeyType, 2048, w.Keys.Get(role, RSA2048))
	for _, t := range []protocol.KeyType{protocol.RsaPkcsKeyType, protocol.RsaPssKeyType} {
		add(t, 2048, w.Keys.Get(role, RSA2048))
		add(t, 3072, w.Keys.Get(role, RSA3072))
	}
}

// Transport returns an FDO HTTP transport from client `from` to node `to`.
func (w *World) Transport(from, to string) *fdo_http.Transport {
	return &fdo_http.Transport{BaseURL: "http://" + to, Client: &http.Client{Transport: w.Net.Link(from, to)}, MaxContentLength: w.MaxContent}
}

// Device is a simulated device: key, HMAC secret and the persisted credential.
type Device struct {
	Name   string
	Cfg    KeyCfg
	Key    *KeyEntry
	Secret []byte
	// CredBlob is the credential as persisted between protocols (CBOR of
	// blob.DeviceCredential); Cred is its decoded form.
	CredBlob []byte
	Cred     *fdo.DeviceCredential
	// HmacFailSum > 0: the device's HMAC engine behaves like a hardware one
	// (it has an Err method) and its HmacFailSum-th finalisation from now on
	// fails: Sum returns its argument unchanged and Err reports the failure.
	HmacFailSum int
	HmacSums    int
	HmacFaults  int
	// NoHmac384: the device offers HMAC-SHA256 only (legal for P-256 and
	// RSA-2048 devices): the SHA-384 engine handed to the library is nil.
	NoHmac384 bool
}

func (w *World) NewDevice(name, role string, cfg KeyCfg) *Device {
	secret := make([]byte, 32)
	_, _ = cryptorand.Read(secret)
	return &Device{Name: name, Cfg: cfg, Key: w.Keys.Get(role, cfg.Fam()), Secret: secret}
}

func (d *Device) HMACs() (hash.Hash, hash.Hash) {
	h256, h384 := hmac.New(sha256.New, d.Secret), hmac.New(sha512.New384, d.Secret)
	if d.HmacFailSum > 0 {
		h256, h384 = &FlakyHash{Hash: h256, d: d}, &FlakyHash{Hash: h384, d: d}
	}
	if d.NoHmac384 {
		return h256, nil
	}
	return h256, h384
}

// FlakyHash is a keyed hash with the failure semantics of a hardware HMAC
// engine (cf. tpm/hmac.go): a failed finalisation returns no digest and is
// reported through Err until the next Reset.
type FlakyHash struct {
	hash.Hash
	d   *Device
	err error
}

func (f *FlakyHash) Reset()     { f.err = nil; f.Hash.Reset() }
func (f *FlakyHash) Err() error { return f.err }
func (f *FlakyHash) Sum(b []byte) []byte {
	f.d.HmacSums++
	if f.d.HmacSums == f.d.HmacFailSum {
		f.d.HmacFaults++
		f.err = errors.New("simulated secure element: HMAC sequence complete failed")
		return b
	}
	return f.Hash.Sum(b)
}

// Persist writes the credential through its blob encoding and reads it back,
// as a device does between protocols.
func (d *Device) Persist(c *fdo.DeviceCredential) error {
	b, err := cbor.Marshal(blob.DeviceCredential{Active: true, DeviceCredential: *c, HmacSecret: d.Secret, PrivateKey: blob.Pkcs8Key{Signer: d.Key.Key}})
	if err != nil {
		return fmt.Errorf("persist credential: %w", err)
	}
	var back blob.DeviceCredential
	if err := cbor.Unmarshal(b, &back); err != nil {
		return fmt.Errorf("reload credential: %w", err)
	}
	d.CredBlob = b
	cred := back.DeviceCredential
	d.Cred = &cred
	d.Secret = back.HmacSecret
	return nil
}

// Signer returns the device key as re-read from the credential blob when one
// exists, else the pool key.
func (d *Device) Signer() crypto.Signer { return d.Key.Key }

// DI runs device initialisation against the manufacturer node.
func (w *World) DI(ctx context.Context, d *Device, mfg string) error {
	sigAlg := x509.UnknownSignatureAlgorithm
	if d.Cfg.PSS() {
		sigAlg = x509.SHA256WithRSAPSS
		if d.Cfg.Bits == 3072 {
			sigAlg = x509.SHA384WithRSAPSS
		}
	}
	csrDER, err := x509.CreateCertificateRequest(cryptorand.Reader, &x509.CertificateRequest{
		Subject: pkix.Name{CommonName: d.Name}, SignatureAlgorithm: sigAlg}, d.Key.Key)
	if err != nil {
		return fmt.Errorf("csr: %w", err)
	}
	csr, err := x509.ParseCertificateRequest(csrDER)
	if err != nil {
		return err
	}
	h256, h384 := d.HMACs()
	var cred *fdo.DeviceCredential
	err, _ = w.Net.SafeCall("DI:"+d.Name, func() (e error) {
		cred, e = fdo.DI(ctx, w.Transport(d.Name, mfg), custom.DeviceMfgInfo{
			KeyType: d.Cfg.Type, KeyEncoding: d.Cfg.Enc, SerialNumber: "sn-" + d.Name, DeviceInfo: "info-" + d.Name,
			CertInfo: cbor.X509CertificateRequest(*csr),
		}, fdo.DIConfig{HmacSha256: h256, HmacSha384: h384, Key: d.Key.Key, PSS: d.Cfg.PSS()})
		return e
	})
	if err != nil {
		return err
	}
	return d.Persist(cred)
}

// TO2Opts selects the device-side TO2 configuration.
type TO2Opts struct {
	Kex        kex.Suite
	Cipher     kex.CipherSuiteID
	AllowReuse bool
	Modules    map[string]serviceinfo.DeviceModule
	MTU        uint16
	Transport  fdo.Transport       // overrides the default transport when set
	Devmod     *serviceinfo.Devmod // overrides the default device descriptors when set
}

var defaultDevmod = serviceinfo.Devmod{Os: "simos", Arch: "sim64", Version: "1", Device: "simdev", FileSep: ";", Bin: "sim64"}

// TO2 runs TO2 for d against owner; on success with a replacement credential
// the device persists it. reused reports credential reuse.
func (w *World) TO2(ctx context.Context, d *Device, owner string, to1d *cose.Sign1[protocol.To1d, []byte], o TO2Opts) (reused bool, err error) {
	h256, h384 := d.HMACs()
	var tr fdo.Transport = w.Transport(d.Name, owner)
	if o.Transport != nil {
		tr = o.Transport
	}
	var cred *fdo.DeviceCredential
	devmod := defaultDevmod
	if o.Devmod != nil {
		devmod = *o.Devmod
	}
	err, _ = w.Net.SafeCall("TO2:"+d.Name, func() (e error) {
		cred, e = fdo.TO2(ctx, tr, to1d, fdo.TO2Config{
			Cred: *d.Cred, HmacSha256: h256, HmacSha384: h384, Key: d.Key.Key, PSS: d.Cfg.PSS(),
			Devmod: devmod, DeviceModules: o.Modules, KeyExchange: o.Kex, CipherSuite: o.Cipher,
			MaxServiceInfoSizeReceive: o.MTU, AllowCredentialReuse: o.AllowReuse,
		})
		return e
	})
	if err != nil {
		return false, err
	}
	if cred == nil {
		return true, nil
	}
	return false, d.Persist(cred)
}

// TO1 runs TO1 for d against the rendezvous node.
func (w *World) TO1(ctx context.Context, d *Device, rv string) (blob *cose.Sign1[protocol.To1d, []byte], err error) {
	err, _ = w.Net.SafeCall("TO1:"+d.Name, func() (e error) {
		blob, e = fdo.TO1(ctx, w.Transport(d.Name, rv), *d.Cred, d.Key.Key, &fdo.TO1Options{PSS: d.Cfg.PSS()})
		return e
	})
	return blob, err
}

// TO0 registers owner's address for guid at the rendezvous node.
func (w *World) TO0(ctx context.Context, owner, rv string, guid protocol.GUID, ttl uint32) (uint32, error) {
	on := w.Nodes[owner]
	c := &fdo.TO0Client{Vouchers: on.Store, OwnerKeys: on.Store, TTL: ttl}
	dns := owner
	var got uint32
	err, _ := w.Net.SafeCall("TO0:"+owner, func() (e error) {
		got, e = c.RegisterBlob(ctx, w.Transport(owner, rv), guid, []protocol.RvTO2Addr{{DNSAddress: &dns, Port: 8043, TransportProtocol: protocol.HTTPTransport}})
		return e
	})
	return got, err
}

// ExtendTo moves the voucher for guid out of node `from` (which must hold its
// current owner key in role fromRole), extends it to the key of role toRole and
// stores it at node `to`: the out-of-band supply-chain step.
func (w *World) ExtendTo(ctx context.Context, from string, guid protocol.GUID, cfg KeyCfg, fromRole, toRole, to string) (*fdo.Voucher, error) {
	fn := w.Nodes[from]
	ov, err := fn.Store.RemoveVoucher(ctx, guid)
	if err != nil {
		return nil, fmt.Errorf("remove voucher at %s: %w", from, err)
	}
	xv, err := ExtendWith(ov, w.Keys.Get(fromRole, cfg.Fam()), w.Keys.Get(toRole, cfg.Fam()), cfg)
	if err != nil {
		return nil, err
	}
	if err := w.Nodes[to].Store.AddVoucher(ctx, xv); err != nil {
		return nil, err
	}
	return xv, nil
}

// ExtendWith extends ov, signing with `signer`, to the public key of `next`
// in the encoding family of cfg.
func ExtendWith(ov *fdo.Voucher, signer, next *KeyEntry, cfg KeyCfg) (*fdo.Voucher, error) {
	return ExtendWithExtra(ov, signer, next, cfg, nil)
}

// ExtendWithExtra is ExtendWith with OVEExtra information.
func ExtendWithExtra(ov *fdo.Voucher, signer, next *KeyEntry, cfg KeyCfg, extra map[int][]byte) (*fdo.Voucher, error) {
	if cfg.Enc == protocol.X5ChainKeyEnc {
		return fdo.ExtendVoucher(ov, signer.Key, next.Chain, extra)
	}
	switch pub := next.Key.Public().(type) {
	case *ecdsa.PublicKey:
		return fdo.ExtendVoucher(ov, signer.Key, pub, extra)
	case *rsa.PublicKey:
		return fdo.ExtendVoucher(ov, signer.Key, pub, extra)
	}
	return nil, fmt.Errorf("unsupported next owner key")
}
