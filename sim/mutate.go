package fdosim

import (
	"fmt"
	"strconv"
	"strings"
)

// Mutation is one structure-aware alteration of a CBOR message.
type Mutation struct {
	Path string `json:"path"`
	Kind string `json:"kind"`
	// Semantic is false when only the encoding changes (e.g. a longer length
	// head for the same content): such mutations can never be required to be
	// rejected.
	Semantic bool `json:"semantic"`
	body     []byte
}

func (m Mutation) String() string { return m.Path + " " + m.Kind }

// Apply returns the mutated message.
func (m Mutation) Apply() []byte { return applyMutation(m.body, m.Path, m.Kind) }

// Boundary values plus the identifiers the FDO/COSE registries assign (hash
// and HMAC types 5, 6, -16, -43; signature algorithms -7, -35, -37, -257):
// relabelling one valid identifier as another is the realistic substitution.
var boundaryUints = []uint64{0, 1, 5, 6, 23, 24, 255, 256, 65535, 65536, 4294967295, 4294967296, 1<<63 - 1, 1 << 63, 1<<64 - 1}
var boundaryNints = []uint64{0, 6, 15, 23, 24, 34, 36, 42, 255, 256, 65535, 4294967295, 1<<63 - 1, 1<<64 - 1} // value = -1-arg

func kindsFor(n *CNode, hasArrayParent bool) []string {
	var k []string
	switch n.Major {
	case 0, 1:
		for _, v := range boundaryUints {
			k = append(k, "uint="+strconv.FormatUint(v, 10))
		}
		for _, v := range boundaryNints {
			k = append(k, "nint="+strconv.FormatUint(v, 10))
		}
		k = append(k, "int+1", "int-1", "type=bstr0", "type=tstr", "type=null", "type=arr0", "type=map0", "type=true", "headinfl")
	case 2:
		k = append(k, "flipfirst", "fliplast", "flipmid", "xorall", "trunc1", "trunc2", "half", "keep2", "ext1", "ext2", "empty", "type=null", "type=uint0", "type=tstr", "type=arr0", "headinfl", "lenclaim", "lenclaim31", "lenclaim63", "lenclaimmax")
	case 3:
		k = append(k, "flipfirst", "trunc1", "ext1", "empty", "badutf8", "type=bstr", "type=null", "type=uint0", "headinfl", "lenclaim", "lenclaim63", "lenclaimmax")
	case 7:
		k = append(k, "toggle", "null", "uint0", "undefined", "type=bstr0")
	case 4, 5:
		k = append(k, "droplast", "duplast", "empty", "null", "countinfl", "countinfl31", "countinfl63", "countinflmax", "swap01", "type=uint0")
	case 6:
		k = append(k, "tag+1", "untag", "null")
	}
	if hasArrayParent {
		k = append(k, "absent")
	}
	return k
}

func nonSemantic(kind string) bool { return kind == "headinfl" }

// LeafMutations enumerates, in a stable order, every (item, kind) alteration
// of body, descending into embedded CBOR byte strings.
func LeafMutations(body []byte) []Mutation {
	root, err := ParseCBOR(body)
	if err != nil {
		return nil
	}
	var out []Mutation
	var walk func(path string, n *CNode, arrParent bool)
	walk = func(path string, n *CNode, arrParent bool) {
		for _, kind := range kindsFor(n, arrParent) {
			if n.Emb != nil && (kind == "type=tstr") {
				continue
			}
			out = append(out, Mutation{Path: path, Kind: kind, Semantic: !nonSemantic(kind), body: body})
		}
		for i, k := range n.Kids {
			walk(fmt.Sprintf("%s/%d", path, i), k, n.Major == 4)
		}
		if n.Emb != nil {
			walk(path+"/e", n.Emb, false)
		}
	}
	walk("", root, false)
	return out
}

func applyMutation(body []byte, path, kind string) []byte {
	root, err := ParseCBOR(body)
	if err != nil {
		return body
	}
	n := root.At(path)
	if n == nil {
		return body
	}
	repl := func(c CNode) { emb := (*CNode)(nil); c.Start, c.End = n.Start, n.End; *n = c; n.Emb = emb }
	switch {
	case strings.HasPrefix(kind, "uint="):
		v, _ := strconv.ParseUint(kind[5:], 10, 64)
		repl(CNode{Major: 0, Arg: v})
	case strings.HasPrefix(kind, "nint="):
		v, _ := strconv.ParseUint(kind[5:], 10, 64)
		repl(CNode{Major: 1, Arg: v})
	case kind == "int+1":
		if n.Major == 0 {
			n.Arg++
		} else if n.Arg == 0 {
			repl(CNode{Major: 0, Arg: 0})
		} else {
			n.Arg--
		}
	case kind == "int-1":
		if n.Major == 1 {
			n.Arg++
		} else if n.Arg == 0 {
			repl(CNode{Major: 1, Arg: 0})
		} else {
			n.Arg--
		}
	case kind == "type=bstr0" || kind == "empty" && (n.Major == 2 || n.Major == 3):
		if kind == "empty" {
			repl(CNode{Major: n.Major})
		} else {
			repl(CNode{Major: 2})
		}
	case kind == "type=tstr":
		repl(CNode{Major: 3, Bytes: []byte("x")})
	case kind == "type=bstr":
		repl(CNode{Major: 2, Bytes: append([]byte(nil), n.Bytes...)})
	case kind == "type=null" || kind == "null":
		repl(CNode{Major: 7, Arg: 22})
	case kind == "type=arr0":
		repl(CNode{Major: 4})
	case kind == "type=map0":
		repl(CNode{Major: 5})
	case kind == "type=true":
		repl(CNode{Major: 7, Arg: 21})
	case kind == "type=uint0" || kind == "uint0":
		repl(CNode{Major: 0})
	case kind == "undefined":
		repl(CNode{Major: 7, Arg: 23})
	case kind == "toggle":
		switch n.Arg {
		case 20:
			n.Arg = 21
		case 21:
			n.Arg = 20
		default:
			n.Arg = 20
		}
	case kind == "headinfl":
		n.wantHead = 9
		if n.HeadLen >= 9 {
			n.wantHead = 0
		}
	case kind == "lenclaim":
		v := uint64(len(n.Bytes)) + 1<<16
		n.rawArg = &v
		n.Emb = nil
	case kind == "lenclaim31" || kind == "lenclaim63" || kind == "lenclaimmax" || kind == "countinfl31" || kind == "countinfl63" || kind == "countinflmax":
		// claimed sizes at the signed/unsigned boundaries of 32- and 64-bit ints
		v := map[string]uint64{"31": 1 << 31, "63": 1 << 63, "max": 1<<64 - 1}[strings.TrimPrefix(strings.TrimPrefix(kind, "lenclaim"), "countinfl")]
		n.rawArg = &v
		if n.Major == 2 || n.Major == 3 {
			n.Emb = nil
		}
	case kind == "countinfl":
		v := uint64(len(n.Kids)) + 1<<20
		if n.Major == 5 {
			v = uint64(len(n.Kids)/2) + 1<<20
		}
		n.rawArg = &v
	case kind == "flipfirst" || kind == "fliplast" || kind == "flipmid" || kind == "xorall" || kind == "badutf8":
		b := append([]byte(nil), n.Bytes...)
		n.Emb = nil
		if len(b) == 0 {
			b = []byte{0xff}
		} else {
			switch kind {
			case "flipfirst":
				b[0] ^= 0x01
			case "fliplast":
				b[len(b)-1] ^= 0x80
			case "flipmid":
				b[len(b)/2] ^= 0x10
			case "xorall":
				for i := range b {
					b[i] ^= 0xa5
				}
			case "badutf8":
				b[0] = 0xff
			}
		}
		n.Bytes = b
	case kind == "trunc1":
		n.Emb = nil
		if len(n.Bytes) > 0 {
			n.Bytes = append([]byte(nil), n.Bytes[:len(n.Bytes)-1]...)
		}
	case kind == "ext1":
		n.Emb = nil
		n.Bytes = append(append([]byte(nil), n.Bytes...), 0)
	case kind == "ext2":
		n.Emb = nil
		n.Bytes = append(append([]byte(nil), n.Bytes...), 0, 1)
	case kind == "trunc2":
		n.Emb = nil
		if len(n.Bytes) > 1 {
			n.Bytes = append([]byte(nil), n.Bytes[:len(n.Bytes)-2]...)
		}
	case kind == "keep2":
		n.Emb = nil
		n.Bytes = append([]byte(nil), n.Bytes[:min(2, len(n.Bytes))]...)
	case kind == "half":
		n.Emb = nil
		n.Bytes = append([]byte(nil), n.Bytes[:len(n.Bytes)/2]...)
	case kind == "droplast":
		if n.Major == 5 && len(n.Kids) >= 2 {
			n.Kids = n.Kids[:len(n.Kids)-2]
		} else if len(n.Kids) > 0 {
			n.Kids = n.Kids[:len(n.Kids)-1]
		}
	case kind == "duplast":
		if n.Major == 5 && len(n.Kids) >= 2 {
			n.Kids = append(n.Kids, n.Kids[len(n.Kids)-2], n.Kids[len(n.Kids)-1])
		} else if len(n.Kids) > 0 {
			n.Kids = append(n.Kids, n.Kids[len(n.Kids)-1])
		}
	case kind == "empty":
		n.Kids = nil
	case kind == "swap01":
		if len(n.Kids) >= 2 {
			n.Kids[0], n.Kids[1] = n.Kids[1], n.Kids[0]
		}
	case kind == "tag+1":
		n.Arg++
	case kind == "untag":
		k := *n.Kids[0]
		*n = k
	case kind == "absent":
		i := strings.LastIndexByte(path, '/')
		parent := root.At(path[:i])
		idx, _ := strconv.Atoi(path[i+1:])
		if parent != nil && idx < len(parent.Kids) {
			parent.Kids = append(append([]*CNode(nil), parent.Kids[:idx]...), parent.Kids[idx+1:]...)
		}
	}
	return root.Encode(nil)
}

// ByteMutations are structure-blind: single bit flips at spread positions,
// truncations and extensions.
func ByteMutations(body []byte) []Mutation {
	var out []Mutation
	n := len(body)
	if n == 0 {
		return []Mutation{{Path: "", Kind: "raw:ext:1", Semantic: true, body: body}}
	}
	seen := map[int]bool{}
	for _, pos := range []int{0, 1, 2, n / 4, n / 2, 3 * n / 4, n - 2, n - 1} {
		if pos < 0 || pos >= n || seen[pos] {
			continue
		}
		seen[pos] = true
		for _, bit := range []int{0, 7} {
			out = append(out, Mutation{Kind: fmt.Sprintf("raw:flip:%d:%d", pos, bit), Semantic: true, body: body})
		}
	}
	for _, cut := range []int{0, 1, n / 2, n - 1} {
		if cut >= 0 && cut < n {
			out = append(out, Mutation{Kind: fmt.Sprintf("raw:trunc:%d", cut), Semantic: true, body: body})
		}
	}
	out = append(out, Mutation{Kind: "raw:ext:1", Semantic: true, body: body}, Mutation{Kind: "raw:ext:64", Semantic: true, body: body})
	return out
}

// ApplyRaw applies a "raw:" mutation kind.
func ApplyRaw(body []byte, kind string) []byte {
	f := strings.Split(kind, ":")
	b := append([]byte(nil), body...)
	switch f[1] {
	case "flip":
		pos, _ := strconv.Atoi(f[2])
		bit, _ := strconv.Atoi(f[3])
		if pos < len(b) {
			b[pos] ^= 1 << uint(bit)
		}
	case "trunc":
		cut, _ := strconv.Atoi(f[2])
		if cut <= len(b) {
			b = b[:cut]
		}
	case "ext":
		k, _ := strconv.Atoi(f[2])
		for i := 0; i < k; i++ {
			b = append(b, byte(0x17+i))
		}
	}
	return b
}

// ApplyAny applies either a leaf or a raw mutation.
func (m Mutation) ApplyAny() []byte {
	if strings.HasPrefix(m.Kind, "raw:") {
		return ApplyRaw(m.body, m.Kind)
	}
	return m.Apply()
}

// AllMutations is LeafMutations followed by ByteMutations.
func AllMutations(body []byte) []Mutation {
	return append(LeafMutations(body), ByteMutations(body)...)
}
