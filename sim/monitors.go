package fdosim

import (
	"bytes"
	"encoding/hex"
	"fmt"

	"github.com/fido-device-onboard/go-fdo/kex"
)

// CipherSpec is the harness' own transcription of the FDO 1.1 cipher suite
// table (§3.5) and the COSE registrations it refers to (RFC 9053 for AES-GCM
// and HMAC, RFC 9459 for AES-CTR/CBC). Nothing here is read from /repo.
type CipherSpec struct {
	Name    string
	ID      kex.CipherSuiteID
	AEAD    bool
	EncAlg  int64 // COSE algorithm id in the Encrypt0 protected header
	MacAlg  int64 // COSE algorithm id in the Mac0 protected header (0 for AEAD)
	KeyLen  int   // bytes of SEK
	MacLen  int   // bytes of SVK by the COSE HMAC registration (informational; not asserted)
	IVLen   int
	PRFHash string
}

var CipherSpecs = []CipherSpec{
	{Name: "A128GCM", ID: 1, AEAD: true, EncAlg: 1, KeyLen: 16, IVLen: 12, PRFHash: "sha256"},
	{Name: "A192GCM", ID: 2, AEAD: true, EncAlg: 2, KeyLen: 24, IVLen: 12, PRFHash: "sha256"},
	{Name: "A256GCM", ID: 3, AEAD: true, EncAlg: 3, KeyLen: 32, IVLen: 12, PRFHash: "sha256"},
	{Name: "COSEAES128CBC", ID: -17760703, EncAlg: -65531, MacAlg: 5, KeyLen: 16, MacLen: 32, IVLen: 16, PRFHash: "sha256"},
	{Name: "COSEAES128CTR", ID: -17760704, EncAlg: -65534, MacAlg: 5, KeyLen: 16, MacLen: 32, IVLen: 16, PRFHash: "sha256"},
	{Name: "COSEAES256CBC", ID: -17760705, EncAlg: -65529, MacAlg: 6, KeyLen: 32, MacLen: 48, IVLen: 16, PRFHash: "sha384"},
	{Name: "COSEAES256CTR", ID: -17760706, EncAlg: -65532, MacAlg: 6, KeyLen: 32, MacLen: 48, IVLen: 16, PRFHash: "sha384"},
}

func CipherSpecByName(name string) CipherSpec {
	for _, c := range CipherSpecs {
		if c.Name == name {
			return c
		}
	}
	panic("unknown cipher " + name)
}

var KexNames = []string{"ECDH256", "ECDH384", "DHKEXid14", "DHKEXid15", "ASYMKEX2048", "ASYMKEX3072"}

// TunnelFrame is what the wire monitor extracted from one encrypted body.
type TunnelFrame struct {
	Seq    int
	Dir    string
	Msg    int
	Tag    uint64
	EncAlg int64
	MacAlg int64
	IV     []byte
	CT     []byte
}

// TunnelMonitor checks, on the wire bytes only, that every TO2 message from
// SetupDevice (65) onwards is an authenticated-encrypted COSE object of the
// negotiated suite with a fresh IV.
type TunnelMonitor struct {
	Spec   CipherSpec
	Frames []TunnelFrame
	Errors []string
	ivSeen map[string]int
	Plain  [][]byte // plaintexts registered by taps; must not appear on the wire
	bodies [][]byte
}

func NewTunnelMonitor(spec CipherSpec) *TunnelMonitor {
	return &TunnelMonitor{Spec: spec, ivSeen: map[string]int{}}
}

func tunnelMsg(ev *NetEvent) (int, bool) {
	if ev.Phase == "req" && ev.MsgType >= 66 && ev.MsgType <= 70 {
		return int(ev.MsgType), true
	}
	if ev.Phase == "resp" && ev.RespType >= 65 && ev.RespType <= 71 {
		return ev.RespType, true
	}
	return 0, false
}

// ParseTunnelFrame decodes the COSE wrapper of an encrypted message.
func ParseTunnelFrame(body []byte) (*TunnelFrame, error) {
	root, err := ParseCBOR(body)
	if err != nil {
		return nil, fmt.Errorf("not well-formed CBOR: %v", err)
	}
	if root.Major != 6 {
		return nil, fmt.Errorf("not a tagged item (major %d)", root.Major)
	}
	f := &TunnelFrame{Tag: root.Arg}
	enc := root.Kids[0]
	if root.Arg == 17 {
		m := root.Kids[0]
		if m.Major != 4 || len(m.Kids) != 4 {
			return nil, fmt.Errorf("COSE_Mac0 is not a 4-array")
		}
		ph := m.Kids[0].Embedded()
		if ph == nil || ph.MapGet(1) == nil {
			return nil, fmt.Errorf("COSE_Mac0 has no protected alg header")
		}
		f.MacAlg, _ = ph.MapGet(1).Int()
		if m.Kids[3].Major != 2 || len(m.Kids[3].Bytes) == 0 {
			return nil, fmt.Errorf("COSE_Mac0 has no tag value")
		}
		enc = m.Kids[2].Embedded()
		if enc == nil {
			return nil, fmt.Errorf("COSE_Mac0 payload is not embedded CBOR")
		}
	} else if root.Arg != 16 {
		return nil, fmt.Errorf("unexpected tag %d", root.Arg)
	}
	if enc.Major != 4 || len(enc.Kids) != 3 {
		return nil, fmt.Errorf("COSE_Encrypt0 is not a 3-array")
	}
	// AEAD algorithms carry alg in the protected header; AES-CTR/CBC
	// (RFC 9459) require a zero-length protected header and carry alg in the
	// unprotected map.
	var algNode *CNode
	if ph := enc.Kids[0].Embedded(); ph != nil {
		algNode = ph.MapGet(1)
	}
	if algNode == nil {
		algNode = enc.Kids[1].MapGet(1)
	}
	if algNode == nil {
		return nil, fmt.Errorf("COSE_Encrypt0 has no alg header")
	}
	f.EncAlg, _ = algNode.Int()
	if iv := enc.Kids[1].MapGet(5); iv != nil && iv.Major == 2 {
		f.IV = iv.Bytes
	}
	if enc.Kids[2].Major != 2 {
		return nil, fmt.Errorf("ciphertext is not a byte string")
	}
	f.CT = enc.Kids[2].Bytes
	return f, nil
}

// Hook observes delivered messages (install it after fault hooks if faults
// should be judged too; normally it is installed first and sees honest bytes).
func (m *TunnelMonitor) Hook(ev *NetEvent) {
	m.bodies = append(m.bodies, ev.Body)
	msg, ok := tunnelMsg(ev)
	if !ok {
		return
	}
	f, err := ParseTunnelFrame(ev.Body)
	if err != nil {
		m.Errors = append(m.Errors, fmt.Sprintf("msg %d: %v", msg, err))
		return
	}
	f.Msg, f.Dir = msg, ev.Phase
	m.Frames = append(m.Frames, *f)
	wantTag := uint64(16)
	if !m.Spec.AEAD {
		wantTag = 17
	}
	if f.Tag != wantTag {
		m.Errors = append(m.Errors, fmt.Sprintf("msg %d: COSE tag %d, suite %s requires %d", msg, f.Tag, m.Spec.Name, wantTag))
	}
	if f.EncAlg != m.Spec.EncAlg {
		m.Errors = append(m.Errors, fmt.Sprintf("msg %d: encryption alg %d, suite %s requires %d", msg, f.EncAlg, m.Spec.Name, m.Spec.EncAlg))
	}
	if !m.Spec.AEAD && f.MacAlg != m.Spec.MacAlg {
		m.Errors = append(m.Errors, fmt.Sprintf("msg %d: MAC alg %d, suite %s requires %d", msg, f.MacAlg, m.Spec.Name, m.Spec.MacAlg))
	}
	if len(f.IV) != m.Spec.IVLen {
		m.Errors = append(m.Errors, fmt.Sprintf("msg %d: IV length %d, want %d", msg, len(f.IV), m.Spec.IVLen))
	}
	k := hex.EncodeToString(f.IV)
	if prev, dup := m.ivSeen[k]; dup {
		m.Errors = append(m.Errors, fmt.Sprintf("msg %d: IV %s reused (first used by msg %d)", msg, k, prev))
	}
	m.ivSeen[k] = msg
	if len(f.CT) == 0 {
		m.Errors = append(m.Errors, fmt.Sprintf("msg %d: empty ciphertext", msg))
	}
}

// CheckPlaintexts reports registered plaintexts (>= 8 bytes) that occur
// verbatim in any wire body.
func (m *TunnelMonitor) CheckPlaintexts() []string {
	var out []string
	for _, p := range m.Plain {
		if len(p) < 8 {
			continue
		}
		for _, b := range m.bodies {
			if bytes.Contains(b, p) {
				out = append(out, fmt.Sprintf("plaintext %x… appears on the wire", p[:8]))
				break
			}
		}
	}
	return out
}
