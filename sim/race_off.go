//go:build !race

package fdosim

func raceOff() {}
func raceOn()  {}

// RaceBuild reports whether the binary was built with -race.
const RaceBuild = false

func raceErrors() int { return 0 }
