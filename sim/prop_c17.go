package fdosim

import (
	"bytes"
	"context"
	"crypto/sha512"
	"errors"
	"fmt"
	"io"
	mrand "math/rand/v2"
	"net/http"
	"net/url"
	"os"
	"path/filepath"
	"regexp"
	"sort"
	"strings"
	"testing/fstest"
	"time"

	"github.com/fido-device-onboard/go-fdo/fsim"
	"github.com/fido-device-onboard/go-fdo/kex"
	"github.com/fido-device-onboard/go-fdo/serviceinfo"
)

// C17 — FSIM file transfers deliver identical files or nothing. The real
// fdo.download / fdo.upload / fdo.wget modules run inside a real TO2 (real
// tunnel, real chunking pipeline under the seeded scheduler); corruption "in
// transit inside the tunnel" is applied at the module seam (between the
// unchunked message and the receiving module), disk faults through the
// modules' CreateTemp/Rename seams and a destination that does not exist, and
// wget talks to a simulated HTTP server.

type C17Plan struct {
	Seed      uint64      `json:"seed"`
	Kind      string      `json:"kind"` // download | upload | wget
	Size      int         `json:"size"`
	ChunkSize int         `json:"chunk_size"` // download only
	DevMTU    int         `json:"dev_mtu"`    // owner -> device message size
	OwnMTU    int         `json:"own_mtu"`    // device -> owner message size
	Sched     SchedPolicy `json:"sched"`
	Fault     string      `json:"fault"`
	At        int         `json:"at"`      // index of the data message / byte offset the fault applies to
	Must      bool        `json:"must"`    // DownloadContents.MustDownload
	Content   int         `json:"content"` // 0 random, 1 zeros, 2 periodic (all chunks identical)
	Checksum  bool        `json:"checksum"`
	NameLen   int         `json:"name_len"`
	// CopyRename: the Rename seam copies the temp file to the destination and
	// removes it (the documented cross-filesystem use) instead of os.Rename.
	CopyRename bool `json:"copy_rename,omitempty"`
}

type c17 struct{ noPrepare }

func init() { Register(&c17{}) }

func (p *c17) ID() string    { return "C17" }
func (p *c17) Level() string { return "exploration" }
func (p *c17) NewPlan() any  { return &C17Plan{} }
func (p *c17) Rule() string {
	return "one file per run moved by the real fdo.download, fdo.upload or fdo.wget module pair inside a real TO2 under the seeded scheduler; sizes 1..~20k with every size around chunk and MTU multiples (k*c-1, k*c, k*c+1), contents random/zero/periodic, download chunk sizes 1..65535 and 0/negative defaults, MTUs 128..65535 in both directions; faults: one of {data byte flipped, data message dropped, duplicated, swapped with its successor, shortened, extended; announced length decreased/increased; announced digest bit-flipped} applied between the tunnel and the receiving module, disk faults {CreateTemp fails, temp file not writable, rename fails, destination directory missing}, wget server faults {500, body truncated, body read error, body byte flipped, stall beyond the timeout}; a reference model computes from the messages actually delivered whether received length and SHA-384 match the announcement; oracle: a file at the destination implies bytes identical to what was received, under the announced name, with matching length and digest; match and no disk fault implies the file is there, TO2 succeeds and the receiver reports the size; mismatch or disk fault implies no file at the destination, nothing else in the destination directory, and no positive report; non-trivial = a fault fired; distinct = distinct (kind, fault, size class, schedule, outcome)"
}
func (p *c17) DeadlockIsViolation() bool { return true }
func (p *c17) Exhaustive(string) bool    { return false }
func (p *c17) Components() map[string][]string {
	return map[string][]string{
		"real": {"fsim.Download, fsim.DownloadContents, fsim.Upload, fsim.UploadRequest, fsim.Wget, fsim.WgetCommand", "fdo.TO2 client and TO2Server service-info loops, chunking pipes, encrypted tunnel", "os files for temp and destination (tmpfs scratch directory)"},
		"stub": {"corrupting wrappers at the module seam (device Receive / owner HandleInfo)", "CreateTemp/Rename seams", "HTTP server for wget (RoundTripper with seeded faults, virtual time)", "network, state backend (simstore), clock, scheduler"},
	}
}
func (p *c17) Assumptions() []string {
	return []string{
		"corruption inside the tunnel is modelled on the unchunked message handed to the receiving module, i.e. after decryption and reassembly",
		"wget announces no length to the device; truncation is only detectable through the announced SHA-384, so server faults are combined with an announced checksum",
		"a transfer that can never complete because announced length exceeds what arrives (dropped data, length increased) is allowed to stall until the message budget; it must not create the file or report success",
		"MTUs below 128 are not sampled; below 256 an explicit refusal of the owner module because its announcement (name, length, digest, url) does not fit one message counts as nothing delivered, not as a violation",
	}
}

func (p *c17) NumPlans(tier string) int {
	if tier == "thorough" {
		return 40000
	}
	return 1800
}

var c17Faults = map[string][]string{
	"download": {"none", "none", "data-flip", "data-drop", "data-dup", "data-swap", "data-short", "data-long", "length-less", "length-more", "digest-flip", "createtemp-fail", "write-fail", "rename-fail"},
	"upload":   {"none", "none", "data-flip", "data-drop", "data-dup", "data-swap", "data-short", "data-long", "length-less", "length-more", "digest-flip", "createtemp-fail", "write-fail", "dest-missing"},
	"wget":     {"none", "none", "http-flip", "http-trunc", "http-err", "http-500", "http-stall", "digest-flip", "createtemp-fail", "write-fail", "rename-fail", "http-err-once", "http-trunc-once", "http-500-once"},
}

var c17MTUs = []int{0, 128, 129, 160, 200, 256, 300, 512, 1000, 1024, 1031, 1032, 1033, 1300, 1400, 2048, 4096, 16384, 65535}

func (p *c17) Plan(tier string, seed uint64, i int) any {
	r := mrand.New(mrand.NewPCG(seed*613+11, uint64(i)))
	kinds := []string{"download", "upload", "wget"}
	pl := &C17Plan{Seed: seed*1_000_003 + uint64(i), Kind: kinds[i%3], Sched: []SchedPolicy{SchedRandom, SchedPCT, SchedFIFO}[(i/3)%3]}
	fl := c17Faults[pl.Kind]
	pl.Fault = fl[(i/9)%len(fl)]
	pl.DevMTU = c17MTUs[r.IntN(len(c17MTUs))]
	pl.OwnMTU = c17MTUs[r.IntN(len(c17MTUs))]
	pl.Must = r.IntN(4) != 0
	pl.Content = []int{0, 0, 0, 1, 2}[r.IntN(5)]
	pl.Checksum = true
	pl.NameLen = 1 + r.IntN(24)
	pl.CopyRename = r.IntN(3) == 0
	switch pl.Kind {
	case "download":
		pl.ChunkSize = []int{0, -1, 1, 2, 7, 100, 255, 256, 1013, 1014, 1015, 4096, 65535}[r.IntN(13)]
		c := pl.ChunkSize
		if c <= 0 {
			c = 1014
		}
		// the effective chunk is bounded by the MTU as well
		eff := c
		if m := pl.effDevMTU() - 40 - pl.NameLen; m < eff {
			eff = max(m, 1)
		}
		k := r.IntN(6)
		if eff <= 8 {
			k = r.IntN(60)
		}
		pl.Size = max(1, k*eff+r.IntN(3)-1+[]int{0, 0, 1, eff / 2}[r.IntN(4)])
		if pl.Size/eff > 150 {
			pl.Size = 150 * eff
		}
	case "upload":
		k := r.IntN(6)
		pl.Size = max(1, k*1014+r.IntN(3)-1+[]int{0, 0, 1, 507}[r.IntN(4)])
	default:
		pl.Size = max(1, r.IntN(5)*512+r.IntN(3)-1+[]int{0, 0, 1, 300}[r.IntN(4)])
		if pl.Fault == "none" {
			pl.Checksum = r.IntN(3) != 0
		}
	}
	pl.At = r.IntN(1 << 20)
	return pl
}

func (pl *C17Plan) effDevMTU() int {
	if pl.DevMTU == 0 {
		return 1300
	}
	return pl.DevMTU
}

func (p *c17) Shrink(plan any) []any {
	pl := plan.(*C17Plan)
	var out []any
	add := func(f func(c *C17Plan)) {
		c := *pl
		f(&c)
		if c != *pl {
			out = append(out, &c)
		}
	}
	add(func(c *C17Plan) { c.Sched = SchedFIFO })
	add(func(c *C17Plan) { c.Content = 0 })
	add(func(c *C17Plan) { c.NameLen = 1 })
	add(func(c *C17Plan) { c.DevMTU = 0 })
	add(func(c *C17Plan) { c.OwnMTU = 0 })
	add(func(c *C17Plan) { c.ChunkSize = 0 })
	add(func(c *C17Plan) { c.Size = max(1, c.Size/2) })
	add(func(c *C17Plan) { c.Size = max(1, c.Size-1) })
	add(func(c *C17Plan) { c.At = c.At / 2 })
	add(func(c *C17Plan) { c.Must = true })
	add(func(c *C17Plan) { c.CopyRename = false })
	return out
}

// c17Model is the reference receiver: it is fed exactly what the receiving
// module is fed and decides whether the announcement matches.
type c17Model struct {
	stream   []byte // concatenated "data" message bodies as delivered
	length   int64
	haveLen  bool
	digest   []byte
	haveDig  bool
	name     string
	dataMsgs int
	// fdo.download has no end marker: the transfer is complete as soon as the
	// announced number of bytes has arrived. completeAt is the length of the
	// delivered stream at that moment (0: not reached); later data belongs to
	// no transfer.
	prefixRule bool
	completeAt int
}

// received parses the delivered data stream as a sequence of CBOR byte
// strings (the fsim framing). ok is false if the stream does not parse.
func (m *c17Model) received() (data []byte, ok bool) {
	b := m.stream
	for len(b) > 0 {
		if b[0]>>5 != 2 {
			return nil, false
		}
		ai := b[0] & 0x1f
		var n, h int
		switch {
		case ai < 24:
			n, h = int(ai), 1
		case ai == 24 && len(b) >= 2:
			n, h = int(b[1]), 2
		case ai == 25 && len(b) >= 3:
			n, h = int(b[1])<<8|int(b[2]), 3
		case ai == 26 && len(b) >= 5:
			n, h = int(b[1])<<24|int(b[2])<<16|int(b[3])<<8|int(b[4]), 5
		default:
			return nil, false
		}
		if len(b) < h+n {
			return nil, false
		}
		data = append(data, b[h:h+n]...)
		b = b[h+n:]
	}
	return data, true
}

func c17Uint(b []byte) (int64, bool) {
	if len(b) == 0 || b[0]>>5 != 0 {
		return 0, false
	}
	ai := b[0] & 0x1f
	switch {
	case ai < 24 && len(b) == 1:
		return int64(ai), true
	case ai == 24 && len(b) == 2:
		return int64(b[1]), true
	case ai == 25 && len(b) == 3:
		return int64(b[1])<<8 | int64(b[2]), true
	case ai == 26 && len(b) == 5:
		return int64(b[1])<<24 | int64(b[2])<<16 | int64(b[3])<<8 | int64(b[4]), true
	}
	return 0, false
}

func c17EncUint(v int64) []byte {
	switch {
	case v < 24:
		return []byte{byte(v)}
	case v < 256:
		return []byte{24, byte(v)}
	case v < 65536:
		return []byte{25, byte(v >> 8), byte(v)}
	}
	return []byte{26, byte(v >> 24), byte(v >> 16), byte(v >> 8), byte(v)}
}

func c17EncBstr(b []byte) []byte {
	h := c17EncUint(int64(len(b)))
	h[0] |= 2 << 5
	return append(h, b...)
}

// c17Faulter applies the plan's in-transit fault to the message sequence of
// one direction and feeds the model with what is delivered.
type c17Faulter struct {
	pl      *C17Plan
	model   *c17Model
	out     *Outcome
	nData   int // expected number of data messages (for choosing the victim)
	seen    int
	held    []byte
	holding bool
	fired   bool
}

// apply returns the bodies to deliver in place of body.
func (f *c17Faulter) apply(name string, body []byte) [][]byte {
	pl := f.pl
	deliver := func(bs ...[]byte) [][]byte {
		for _, b := range bs {
			switch name {
			case "data":
				f.model.stream = append(f.model.stream, b...)
				f.model.dataMsgs++
				if f.model.prefixRule && f.model.completeAt == 0 && f.model.haveLen {
					if d, ok := f.model.received(); ok && int64(len(d)) >= f.model.length {
						f.model.completeAt = len(f.model.stream)
					}
				}
			case "length":
				if v, ok := c17Uint(b); ok {
					f.model.length, f.model.haveLen = v, true
				}
			case "sha-384":
				if len(b) == 50 && b[0] == 0x58 && b[1] == 48 {
					f.model.digest, f.model.haveDig = append([]byte(nil), b[2:]...), true
				}
			}
		}
		return bs
	}
	fire := func() {
		f.fired = true
		f.out.Fault(pl.Fault)
	}
	switch name {
	case "data":
		idx := f.seen
		f.seen++
		victim := 0
		if f.nData > 0 {
			victim = pl.At % f.nData
		}
		if f.holding {
			// second half of a swap
			f.holding = false
			h := f.held
			f.held = nil
			fire()
			return deliver(body, h)
		}
		if idx != victim || f.fired {
			return deliver(body)
		}
		switch pl.Fault {
		case "data-flip":
			// flip a bit of the content (not of the CBOR head)
			head := len(body) - c17BstrLen(body)
			if c17BstrLen(body) <= 0 {
				return deliver(body)
			}
			c := append([]byte(nil), body...)
			c[head+(pl.At/7)%(len(body)-head)] ^= 1 << (pl.At % 8)
			fire()
			return deliver(c)
		case "data-drop":
			fire()
			return nil
		case "data-dup":
			fire()
			return deliver(body, body)
		case "data-swap":
			if idx == f.nData-1 {
				return deliver(body) // no successor to swap with
			}
			f.holding, f.held = true, append([]byte(nil), body...)
			return nil
		case "data-short":
			n := c17BstrLen(body)
			head := len(body) - n
			if n < 1 || head < 1 {
				return deliver(body)
			}
			fire()
			return deliver(c17EncBstr(body[head : len(body)-1]))
		case "data-long":
			n := c17BstrLen(body)
			head := len(body) - n
			if n < 1 || head < 1 {
				return deliver(body)
			}
			fire()
			return deliver(c17EncBstr(append(append([]byte(nil), body[head:]...), byte(pl.At))))
		}
		return deliver(body)
	case "length":
		v, ok := c17Uint(body)
		if !ok {
			return deliver(body)
		}
		switch pl.Fault {
		case "length-less":
			if v < 2 {
				return deliver(body)
			}
			fire()
			return deliver(c17EncUint(v - 1 - int64(pl.At)%(v-1)))
		case "length-more":
			fire()
			return deliver(c17EncUint(v + 1 + int64(pl.At%3000)))
		}
		return deliver(body)
	case "sha-384":
		if pl.Fault == "digest-flip" && len(body) == 50 {
			c := append([]byte(nil), body...)
			c[2+pl.At%48] ^= 1 << (pl.At % 8)
			fire()
			return deliver(c)
		}
		return deliver(body)
	}
	return [][]byte{body}
}

// c17BstrLen returns the content length of a body that is exactly one CBOR
// byte string, or -1 (fragments of a byte string are not touched).
func c17BstrLen(b []byte) int {
	m := &c17Model{stream: b}
	d, ok := m.received()
	if !ok || len(b) == 0 {
		return -1
	}
	// exactly one string?
	if len(c17EncBstr(d)) != len(b) {
		return -1
	}
	return len(d)
}

type c17Report struct {
	name string
	body []byte
}

// c17Dev wraps the device module: faults on what it receives, record of what
// it responds.
type c17Dev struct {
	inner   serviceinfo.DeviceModule
	f       *c17Faulter // nil: nothing to corrupt in this direction
	reports *[]c17Report
	errs    *[]string
}

type c17RespW struct {
	w   io.Writer
	rep *c17Report
}

func (w *c17RespW) Write(p []byte) (int, error) {
	w.rep.body = append(w.rep.body, p...)
	return w.w.Write(p)
}

func (d *c17Dev) wrapRespond(respond func(string) io.Writer) func(string) io.Writer {
	return func(name string) io.Writer {
		*d.reports = append(*d.reports, c17Report{name: name})
		// the slice may be reallocated by later appends: keep an index
		idx := len(*d.reports) - 1
		return writerFunc(func(p []byte) (int, error) {
			(*d.reports)[idx].body = append((*d.reports)[idx].body, p...)
			return respond(name).Write(p)
		})
	}
}

type writerFunc func([]byte) (int, error)

func (f writerFunc) Write(p []byte) (int, error) { return f(p) }

func (d *c17Dev) Transition(active bool) error { return d.inner.Transition(active) }
func (d *c17Dev) Receive(ctx context.Context, name string, body io.Reader, respond func(string) io.Writer, yield func()) error {
	b, err := io.ReadAll(body)
	if err != nil {
		return err
	}
	bodies := [][]byte{b}
	if d.f != nil {
		bodies = d.f.apply(name, b)
	}
	// respond(name) must be called once per message; the module calls it itself
	for _, x := range bodies {
		if err := d.inner.Receive(ctx, name, bytes.NewReader(x), d.respondOnce(respond), yield); err != nil {
			*d.errs = append(*d.errs, "device module: "+err.Error())
			return err
		}
	}
	return nil
}
func (d *c17Dev) Yield(ctx context.Context, respond func(string) io.Writer, yield func()) error {
	return d.inner.Yield(ctx, d.respondOnce(respond), yield)
}

// respondOnce records every message the module starts and what it writes.
func (d *c17Dev) respondOnce(respond func(string) io.Writer) func(string) io.Writer {
	return func(name string) io.Writer {
		w := respond(name)
		*d.reports = append(*d.reports, c17Report{name: name})
		idx := len(*d.reports) - 1
		return writerFunc(func(p []byte) (int, error) {
			(*d.reports)[idx].body = append((*d.reports)[idx].body, p...)
			return w.Write(p)
		})
	}
}

// c17Own wraps the owner module.
type c17Own struct {
	inner   serviceinfo.OwnerModule
	f       *c17Faulter
	got     *[]c17Report // device -> owner messages as handed to the module
	errs    *[]string
	done    *bool
	fragged *bool
}

func (o *c17Own) HandleInfo(ctx context.Context, name string, body io.Reader) error {
	b, err := io.ReadAll(body)
	if err != nil {
		return err
	}
	*o.got = append(*o.got, c17Report{name: name, body: append([]byte(nil), b...)})
	bodies := [][]byte{b}
	if o.f != nil {
		if name == "data" && c17BstrLen(b) < 0 {
			*o.fragged = true
		}
		bodies = o.f.apply(name, b)
	}
	for _, x := range bodies {
		if err := o.inner.HandleInfo(ctx, name, bytes.NewReader(x)); err != nil {
			*o.errs = append(*o.errs, "owner module HandleInfo("+name+"): "+err.Error())
			return err
		}
	}
	return nil
}

func (o *c17Own) ProduceInfo(ctx context.Context, pr *serviceinfo.Producer) (bool, bool, error) {
	b, d, err := o.inner.ProduceInfo(ctx, pr)
	if err != nil {
		*o.errs = append(*o.errs, "owner module ProduceInfo: "+err.Error())
	}
	if d {
		*o.done = true
	}
	return b, d, err
}

// c17HTTP is the simulated web server wget talks to.
type c17HTTP struct {
	k       *Kernel
	pl      *C17Plan
	content []byte
	out     *Outcome
	served  []byte // what the client was given by the latest request
	timeout time.Duration
	// attempts counts requests: the "-once" faults hit the first one only (a
	// transient fault; a client that retries gets a clean response next time)
	attempts int
}

type c17Body struct {
	h      *c17HTTP
	data   []byte
	off    int
	errAt  int // -1: none
	ctx    context.Context
	closed bool
}

func (b *c17Body) Read(p []byte) (int, error) {
	b.h.k.Yield("wget.http.read")
	if err := b.ctx.Err(); err != nil {
		return 0, err
	}
	if b.errAt >= 0 && b.off >= b.errAt {
		return 0, io.ErrUnexpectedEOF
	}
	if b.off >= len(b.data) {
		return 0, io.EOF
	}
	end := min(len(b.data), b.off+min(len(p), 700))
	if b.errAt >= 0 {
		end = min(end, max(b.errAt, b.off))
	}
	n := copy(p, b.data[b.off:end])
	b.h.served = append(b.h.served, b.data[b.off:b.off+n]...)
	b.off += n
	return n, nil
}
func (b *c17Body) Close() error { b.closed = true; return nil }

func (h *c17HTTP) RoundTrip(req *http.Request) (*http.Response, error) {
	h.k.Yield("wget.http.request")
	pl := h.pl
	resp := &http.Response{StatusCode: 200, Status: "200 OK", Proto: "HTTP/1.1", ProtoMajor: 1, ProtoMinor: 1, Header: http.Header{}, Request: req}
	data := append([]byte(nil), h.content...)
	body := &c17Body{h: h, data: data, errAt: -1, ctx: req.Context()}
	resp.ContentLength = int64(len(data))
	h.attempts++
	h.served = nil
	fault := pl.Fault
	if strings.HasSuffix(fault, "-once") {
		fault = strings.TrimSuffix(fault, "-once")
		if h.attempts > 1 {
			fault = "none"
			h.out.Probe("request-repeated-after-transient-fault")
		}
	}
	switch fault {
	case "http-500":
		h.out.Fault(pl.Fault)
		resp.StatusCode, resp.Status = 500, "500 Internal Server Error"
		body.data = []byte("oops")
		resp.ContentLength = 4
	case "http-flip":
		h.out.Fault(pl.Fault)
		data[(pl.At/8)%len(data)] ^= 1 << (pl.At % 8)
	case "http-trunc":
		// a close-delimited response that ends early
		h.out.Fault(pl.Fault)
		body.data = data[:pl.At%len(data)]
		resp.ContentLength = -1
	case "http-err":
		h.out.Fault(pl.Fault)
		body.errAt = pl.At % len(data)
	case "http-stall":
		h.out.Fault(pl.Fault)
		tm := time.NewTimer(3 * h.timeout)
		select {
		case <-req.Context().Done():
			tm.Stop()
			h.k.Yield("wget.http.cancelled")
			return nil, req.Context().Err()
		case <-tm.C:
		}
		h.k.Yield("wget.http.stalled")
	}
	resp.Body = body
	return resp, nil
}

func c17Content(pl *C17Plan) []byte {
	b := make([]byte, pl.Size)
	switch pl.Content {
	case 1:
	case 2:
		for i := range b {
			b[i] = byte(i%13) + 'a'
		}
		// period 13 does not divide the usual chunk sizes: make chunks really
		// identical by using a period of 1 for some plans
		if pl.At%2 == 0 {
			for i := range b {
				b[i] = 'x'
			}
		}
	default:
		r := mrand.New(mrand.NewPCG(pl.Seed, 0xc17))
		for i := range b {
			b[i] = byte(r.Uint32())
		}
	}
	return b
}

var c17Seq int

var c17TempRe = regexp.MustCompile(`t_[0-9]+`)

func (p *c17) Exec(env *Env, plan any) {
	pl := plan.(*C17Plan)
	o := env.Out
	cfg := keyCfgByName("P-256", 1)
	ctx := context.Background()
	k := NewKernel(pl.Seed, pl.Sched, 2000000)
	w := NewWorld(k)
	defer InstallHooks(nil)
	node := w.AddSimNode("aio", "mfg", "owner1")
	if pl.DevMTU > 60000 || pl.OwnMTU > 60000 {
		// service-info MTUs near the maximum need an HTTP layer that admits the
		// framed, encrypted message
		w.MaxContent, node.MaxContent = 1<<20, 1<<20
	}
	node.Sim.SetYield(nil) // interleavings of interest: the device pipeline and the wget goroutine
	w.Net.MaxMsgs = 1500
	if pl.OwnMTU > 0 {
		node.MaxDevSISize = uint16(pl.OwnMTU)
	}
	c17Seq++
	root := filepath.Join(ScratchDir(), fmt.Sprintf("c17-%d", c17Seq))
	tmpDir, dstDir, upDir := filepath.Join(root, "tmp"), filepath.Join(root, "dst"), filepath.Join(root, "up")
	for _, d := range []string{tmpDir, dstDir, upDir} {
		_ = os.MkdirAll(d, 0o755)
	}
	defer os.RemoveAll(root)

	content := c17Content(pl)
	sum := sha512.Sum384(content)
	name := "f" + strings.Repeat("n", pl.NameLen-1) + ".bin"
	model := &c17Model{}
	flt := &c17Faulter{pl: pl, model: model, out: o}
	var devReports, ownGot []c17Report
	var errs []string
	ownerDone, fragged := false, false

	diskFault := ""
	createTemp := func() (*os.File, error) {
		switch pl.Fault {
		case "createtemp-fail":
			o.Fault(pl.Fault)
			diskFault = pl.Fault
			return nil, errors.New("simulated: no space left on device")
		case "write-fail":
			f, err := os.CreateTemp(tmpDir, "t_*")
			if err != nil {
				return nil, err
			}
			nm := f.Name()
			_ = f.Close()
			o.Fault(pl.Fault)
			diskFault = pl.Fault
			return os.Open(nm) // read-only: every write fails
		}
		return os.CreateTemp(tmpDir, "t_*")
	}
	rename := func(oldp, newp string) error {
		if pl.Fault == "rename-fail" {
			o.Fault(pl.Fault)
			diskFault = pl.Fault
			return errors.New("simulated: cross-device link")
		}
		if pl.CopyRename {
			b, err := os.ReadFile(oldp)
			if err != nil {
				return err
			}
			if err := os.WriteFile(newp, b, 0o644); err != nil {
				return err
			}
			return os.Remove(oldp)
		}
		return os.Rename(oldp, newp)
	}
	nameToPath := func(n string) string { return filepath.Join(dstDir, n) }

	var ownerMod serviceinfo.OwnerModule
	var devMod serviceinfo.DeviceModule
	modName := "fdo." + pl.Kind
	dest := filepath.Join(dstDir, name)
	var httpSrv *c17HTTP
	wgetTimeout := 5 * time.Second
	switch pl.Kind {
	case "download":
		c := pl.ChunkSize
		if c <= 0 {
			c = 1014
		}
		eff := min(c, max(1, pl.effDevMTU()-40-pl.NameLen))
		flt.nData = (pl.Size + eff - 1) / eff
		ownerMod = &c17Own{inner: &fsim.DownloadContents[*bytes.Reader]{Name: name, Contents: bytes.NewReader(content), MustDownload: pl.Must, ChunkSize: pl.ChunkSize}, got: &ownGot, errs: &errs, done: &ownerDone, fragged: &fragged}
		devMod = &c17Dev{inner: &fsim.Download{CreateTemp: createTemp, NameToPath: nameToPath, Rename: rename}, f: flt, reports: &devReports, errs: &errs}
		model.name = name
		model.prefixRule = true
	case "upload":
		flt.nData = (pl.Size + 1013) / 1014
		dest = filepath.Join(upDir, "renamed-"+name)
		dir := upDir
		if pl.Fault == "dest-missing" {
			dir = filepath.Join(upDir, "missing")
			dest = filepath.Join(dir, "renamed-"+name)
			diskFault = pl.Fault
			o.Fault(pl.Fault)
		}
		ownerMod = &c17Own{inner: &fsim.UploadRequest{Dir: dir, Name: name, Rename: "renamed-" + name, CreateTemp: createTemp}, f: flt, got: &ownGot, errs: &errs, done: &ownerDone, fragged: &fragged}
		devMod = &c17Dev{inner: &fsim.Upload{FS: fstest.MapFS{name: &fstest.MapFile{Data: content, Mode: 0o644}}}, reports: &devReports, errs: &errs}
	default:
		httpSrv = &c17HTTP{k: k, pl: pl, content: content, out: o, timeout: wgetTimeout}
		u, _ := url.Parse("http://files.sim/" + name)
		cmd := &fsim.WgetCommand{Name: name, URL: u, Length: int64(len(content))}
		if pl.Checksum {
			cmd.Checksum = sum[:]
		}
		ownerMod = &c17Own{inner: cmd, got: &ownGot, errs: &errs, done: &ownerDone, fragged: &fragged}
		devMod = &c17Dev{inner: &fsim.Wget{CreateTemp: createTemp, NameToPath: nameToPath, Rename: rename, Timeout: wgetTimeout, Client: &http.Client{Transport: httpSrv}}, f: flt, reports: &devReports, errs: &errs}
		// every protocol message costs virtual time, so that the wget timeout can expire
		w.Net.AddHook(func(ev *NetEvent) {
			if ev.Phase == "req" {
				time.Sleep(20 * time.Millisecond)
			}
		})
		w.Net.MaxMsgs = 2500
	}
	node.Mods = &ModSM{Factory: func(ctx context.Context, token string) []NamedModule {
		return []NamedModule{{Name: modName, Mod: ownerMod}}
	}}

	var terr error
	k.Go("dev1", func() {
		dev := w.NewDevice("dev1", "dev1", cfg)
		if err := w.DI(ctx, dev, "aio"); err != nil {
			terr = fmt.Errorf("DI: %w", err)
			return
		}
		if _, err := w.ExtendTo(ctx, "aio", dev.Cred.GUID, cfg, "mfg", "owner1", "aio"); err != nil {
			terr = fmt.Errorf("extend: %w", err)
			return
		}
		_, terr = w.TO2(ctx, dev, "aio", nil, TO2Opts{Kex: kex.ECDH256Suite, Cipher: kex.A128GcmCipher, MTU: uint16(pl.DevMTU),
			Modules: map[string]serviceinfo.DeviceModule{modName: devMod}})
	})
	k.Run()
	o.Steps, o.MultiSteps = k.Steps, k.MultiSteps
	o.Sched = fmt.Sprintf("%s:%016x", pl.Sched, k.TraceHash())
	o.SimTimeS = time.Since(env.Start).Seconds()

	// ---- observe ----
	list := func(dir string) []string {
		es, _ := os.ReadDir(dir)
		var out []string
		for _, e := range es {
			out = append(out, e.Name())
		}
		sort.Strings(out)
		return out
	}
	destBytes, destErr := os.ReadFile(dest)
	destExists := destErr == nil
	dstList, upList, tmpList := list(dstDir), list(upDir), list(tmpDir)

	// what the receiver was given
	var recv []byte
	recvOK := true
	match := false
	switch pl.Kind {
	case "wget":
		recv = httpSrv.served
		dig := sum[:]
		if flt.model.haveDig {
			dig = flt.model.digest
		}
		got := sha512.Sum384(recv)
		complete := pl.Fault != "http-500" && pl.Fault != "http-err" && pl.Fault != "http-stall"
		if (pl.Fault == "http-err-once" || pl.Fault == "http-500-once") && httpSrv.attempts < 2 {
			// the only request made was the one that failed
			complete = false
		}
		match = complete && (!pl.Checksum || bytes.Equal(got[:], dig))
		if !pl.Checksum && !bytes.Equal(recv, content) {
			match = false
		}
	default:
		if model.prefixRule && model.completeAt > 0 {
			model.stream = model.stream[:model.completeAt]
		}
		recv, recvOK = model.received()
		got := sha512.Sum384(recv)
		match = recvOK && model.haveLen && int64(len(recv)) == model.length && model.haveDig && bytes.Equal(got[:], model.digest)
	}
	// reports of the receiver
	positive, negative := false, false
	switch pl.Kind {
	case "download", "wget":
		for _, r := range devReports {
			switch r.name {
			case "done":
				if v, ok := c17Uint(r.body); ok {
					positive = true
					if v != int64(len(recv)) {
						o.Violate("C17", "report", "done-size", "%s: device reported done=%d but received %d bytes", pl.Kind, v, len(recv))
					}
				} else {
					negative = true // -1
				}
			case "error":
				negative = true
			}
		}
	case "upload":
		positive = ownerDone
		negative = len(errs) > 0
	}
	// temp names and the scratch path are not part of the behaviour
	san := func(x string) string {
		return c17TempRe.ReplaceAllString(strings.ReplaceAll(x, root, "$ROOT"), "t_N")
	}
	env.Logf("plan %+v", *pl)
	env.Logf("sched=%s steps=%d terr=%s", o.Sched, k.Steps, san(fmt.Sprint(terr)))
	env.Logf("model: msgs=%d recvOK=%v recv=%d len=%d/%v dig=%v match=%v disk=%q fired=%v fragged=%v", model.dataMsgs, recvOK, len(recv), model.length, model.haveLen, model.haveDig, match, diskFault, flt.fired, fragged)
	env.Logf("dest exists=%v size=%d dst=%v up=%v tmp=%d positive=%v negative=%v ownerDone=%v exhausted=%v", destExists, len(destBytes), dstList, upList, len(tmpList), positive, negative, ownerDone, w.Net.Exhausted)
	for _, e := range errs {
		env.Logf("err: %s", san(e))
	}
	for _, r := range devReports {
		if r.name == "error" {
			env.Logf("dev-> error") // the text carries scratch paths
			continue
		}
		env.Logf("dev-> %s %x", r.name, r.body[:min(len(r.body), 12)])
	}
	for _, pr := range w.Net.Panics {
		o.Violate("C17", "panic", pr.Frame, "panic in %s: %s", pr.Where, pr.Value)
	}
	desc := fmt.Sprintf("%s size=%d chunk=%d devMTU=%d ownMTU=%d fault=%s", pl.Kind, pl.Size, pl.ChunkSize, pl.DevMTU, pl.OwnMTU, pl.Fault)
	if k.Deadlock || o.Deadlock {
		o.Class = "DEADLOCK"
		o.Violate("C17", "deadlock", pl.Kind, "transfer deadlocked (%s)", desc)
		return
	}
	if fragged {
		o.Probe("owner-received-data-fragment")
	}
	if len(tmpList) > 0 {
		o.Probe("temp-file-left-behind")
	}
	sizeClass := "mid"
	// (a) a file at the destination is identical to what was received, with
	// matching announcement, and is the only thing there
	if destExists {
		if !match || !bytes.Equal(destBytes, recv) {
			o.Class = "WRONG-FILE"
			o.Violate("C17", "wrong-file-at-destination", pl.Kind+"|"+pl.Fault, "%s: a file of %d bytes appeared at the destination although the received data (%d bytes, parse ok=%v) does not match the announcement (len=%d digest-known=%v) or differs from it", desc, len(destBytes), len(recv), recvOK, model.length, model.haveDig)
		}
		if diskFault != "" {
			o.Violate("C17", "wrong-file-at-destination", pl.Kind+"|"+diskFault, "%s: file at the destination despite disk fault %s", desc, diskFault)
		}
	}
	others := append([]string(nil), dstList...)
	if pl.Kind == "upload" {
		others = upList
	}
	for _, n := range others {
		if n != filepath.Base(dest) && n != "missing" {
			o.Class = "STRAY-FILE"
			o.Violate("C17", "stray-file", pl.Kind, "%s: unexpected entry %q in the destination directory", desc, n)
		}
	}
	stalled := w.Net.Exhausted || k.Exhausted
	// with nothing injected the sender's file is what must arrive, whatever the
	// model could reconstruct from a transfer that broke down half way
	faultFree := !flt.fired && !flt.holding && diskFault == "" && len(o.Faults) == 0
	if faultFree {
		match, recv = true, content
	}
	switch {
	case match && diskFault == "":
		// (b) must arrive
		if stalled {
			o.Class = "STALLED"
			o.Violate("C17", "no-termination", pl.Kind, "%s: transfer did not finish within the message budget", desc)
			return
		}
		if !destExists || (terr != nil && !flt.fired) || !positive {
			first := ""
			if len(errs) > 0 {
				first = errs[0]
			}
			// below 256 bytes the announcement KVs of a module (name, length,
			// digest, url) may not fit one message; the owner modules then refuse
			// explicitly before anything is transferred
			if ec := c17ErrClass(terr, first); pl.Kind != "upload" && pl.effDevMTU() < 256 && !destExists && !positive && (ec == "not enough buffer space" || ec == "MTU") {
				o.Class = "refused-announcement-exceeds-tiny-mtu:" + pl.Kind
				o.Probe("announcement-does-not-fit-mtu-below-256")
				return
			}
			o.Class = "NOT-DELIVERED"
			o.Violate("C17", "not-delivered", pl.Kind+"|"+c17ErrClass(terr, first), "%s: announcement matches and nothing failed, but destExists=%v positive-report=%v TO2 err=%v module err=%q", desc, destExists, positive, terr, first)
			return
		}
		if !bytes.Equal(destBytes, content) && !flt.fired {
			o.Violate("C17", "wrong-file-at-destination", pl.Kind+"|fault-free", "%s: fault-free transfer produced different bytes", desc)
		}
		o.Class = "delivered:" + pl.Kind
		if flt.fired {
			o.Class = "delivered-despite-benign-fault:" + pl.Kind
		}
	default:
		// (c) nothing may arrive and nothing positive may be reported
		if positive {
			o.Class = "FALSE-SUCCESS"
			o.Violate("C17", "false-success-report", pl.Kind+"|"+pl.Fault, "%s: receiver reported success although announcement and received data do not match (or the disk failed)", desc)
		}
		if stalled {
			o.Class = "stalled-no-file:" + pl.Kind
			// a length-prefixed stream that lost, gained or reordered bytes may leave
			// the receiver waiting for bytes that never come
			if !(strings.HasPrefix(pl.Fault, "data-") || pl.Fault == "length-more") {
				o.Violate("C17", "no-termination", pl.Kind+"|"+pl.Fault, "%s: transfer neither failed nor finished within the message budget", desc)
			}
		} else if negative || terr != nil {
			o.Class = "refused:" + pl.Kind
		} else {
			o.Class = "silent-no-file:" + pl.Kind
			o.Probe("mismatch-without-explicit-failure-report")
		}
	}
	_ = sizeClass
	o.Sample = map[string]any{"kind": pl.Kind, "fault": pl.Fault, "size": pl.Size, "data_msgs": model.dataMsgs, "class": o.Class}
}

func c17ErrClass(terr error, first string) string {
	s := first
	if s == "" && terr != nil {
		s = terr.Error()
	}
	for _, k := range []string{"error decoding message data", "not enough buffer space", "unexpected EOF", "SHA-384 did not match", "did not read full body", "exceeds", "too large", "MTU"} {
		if strings.Contains(s, k) {
			return k
		}
	}
	if s == "" {
		return "no-error"
	}
	return "other"
}
