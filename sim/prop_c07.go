package fdosim

import (
	"context"
	"fmt"
	"net"
	"strings"
	"testing"
	"testing/synctest"
	"time"

	fdo "github.com/fido-device-onboard/go-fdo"
	"github.com/fido-device-onboard/go-fdo/cbor"
	"github.com/fido-device-onboard/go-fdo/kex"
	"github.com/fido-device-onboard/go-fdo/protocol"
)

// C07 — TO1 releases the registered redirect, unmodified, only to the proven
// device, and never after expiry.

type C07Plan struct {
	Seed    uint64 `json:"seed"`
	Key     string `json:"key"`
	Enc     uint8  `json:"enc"`
	Chain   int    `json:"chain"`
	Sql     bool   `json:"sql"`
	Addrs   int    `json:"addrs"` // address list shape
	Attack  string `json:"attack"`
	KeyRole string `json:"key_role,omitempty"`
	Clock   int64  `json:"clock,omitempty"` // seconds relative to expiry
	Msg     int    `json:"msg,omitempty"`
	Ord     int    `json:"ord,omitempty"`
}

type c07 struct{ plans map[string][]C07Plan }

func init() { Register(&c07{plans: map[string][]C07Plan{}}) }

func (p *c07) ID() string    { return "C07" }
func (p *c07) Level() string { return "exploration" }
func (p *c07) NewPlan() any  { return &C07Plan{} }
func (p *c07) Rule() string {
	return "plans = honest TO1 (blob fidelity through storage: registered bytes == received bytes, owner signature verifies, TO2 accepts) over varied address lists and both backends; forged TO1.ProveToRV tokens (foreign signer, other device's key over the victim's GUID, token replayed from another session / for another GUID, wrong nonce), clock positions around expiry on the sqlite backend, blob altered or re-signed on its way to the device followed by TO2, and a complete structure-aware mutation sweep of the honest HelloRV/ProveToRV requests; non-trivial = adversary request or clock jump or alteration happened; distinct = distinct (fault, outcome, log hash)"
}
func (p *c07) Exhaustive(string) bool { return false }
func (p *c07) Components() map[string][]string {
	return map[string][]string{
		"real": {"fdo.TO1Server, TO0Server", "fdo.TO1 / fdo.TO2 device roles", "sqlite.DB expiry filter (sql plans)", "http.Handler/Transport", "cose", "cbor"},
		"stub": {"adversary client", "simstore (non-sql plans)", "clock (synctest, jumped across the TTL)", "crypto randomness"},
	}
}
func (p *c07) Assumptions() []string {
	return []string{
		"expiry is judged only on the sqlite backend (the filter lives in sqlite.DB.RVBlob); at expiry-1s the blob must be served, at expiry+1s and later it must not",
		"serving device D2's own blob to D2 inside a session opened for D1 is allowed by the statement (probe only)",
	}
}

func c07Addrs(shape int) []protocol.RvTO2Addr {
	ip4 := net.IPv4(192, 0, 2, 44)
	ip6 := net.ParseIP("2001:db8::17")
	dns := "owner.example.org"
	long := strings.Repeat("a", 60) + ".example"
	switch shape % 5 {
	case 0:
		return []protocol.RvTO2Addr{{DNSAddress: &dns, Port: 8043, TransportProtocol: protocol.HTTPTransport}}
	case 1:
		return []protocol.RvTO2Addr{{IPAddress: &ip4, Port: 443, TransportProtocol: protocol.HTTPSTransport}}
	case 2:
		return []protocol.RvTO2Addr{{IPAddress: &ip6, DNSAddress: &dns, Port: 1, TransportProtocol: protocol.HTTPTransport}, {IPAddress: &ip4, Port: 65535, TransportProtocol: protocol.HTTPSTransport}}
	case 3:
		return []protocol.RvTO2Addr{{DNSAddress: &long, Port: 0, TransportProtocol: protocol.TCPTransport}, {DNSAddress: &dns, Port: 80, TransportProtocol: protocol.HTTPTransport}, {IPAddress: &ip4, Port: 81, TransportProtocol: protocol.HTTPTransport}}
	default:
		return []protocol.RvTO2Addr{}
	}
}

var c07Attacks = []C07Plan{
	{Attack: "honest"},
	{Attack: "forged-signer", KeyRole: "att1"}, {Attack: "forged-signer", KeyRole: "dev2"}, {Attack: "forged-signer", KeyRole: "owner1"}, {Attack: "forged-signer", KeyRole: "mfg"},
	{Attack: "control-builder"},
	{Attack: "wrong-nonce"}, {Attack: "replay-other-session"}, {Attack: "token-other-guid"}, {Attack: "dev2-over-dev1-session"},
	{Attack: "unregistered-guid"},
	// forged proofs while one call of the rendezvous server's state backend fails
	{Attack: "forged-signer+fail:TO1ProofNonce", KeyRole: "att1"}, {Attack: "wrong-nonce+fail:TO1ProofNonce"}, {Attack: "replay-other-session+fail:TO1ProofNonce"},
	{Attack: "forged-signer+fail:RVBlob", KeyRole: "att1"}, {Attack: "forged-signer+fail:InvalidateToken", KeyRole: "att1"}, {Attack: "dev2-over-dev1-session+fail:TO1ProofNonce"},
	// the registered voucher names no device certificate (OVDevCertChain null):
	// nobody can prove to be that device, whatever key signs
	{Attack: "no-device-cert", KeyRole: "att1"}, {Attack: "no-device-cert", KeyRole: "dev1"},
	{Attack: "clock", Clock: -1}, {Attack: "clock", Clock: 1}, {Attack: "clock", Clock: 86400 * 400},
	{Attack: "clock-midsession", Clock: 1},
	// a later registration replaces the earlier one, lifetime included:
	// shorter (Clock>0: asked after the new, before the old expiry) and longer
	// the rendezvous server's policy grants less than the owner asked for: the
	// acknowledged lifetime is what counts
	{Attack: "policy-grants-less", Clock: 1}, {Attack: "policy-grants-less", Clock: 600}, {Attack: "policy-grants-less", Clock: -1},
	{Attack: "reregister-shorter", Clock: 1}, {Attack: "reregister-shorter", Clock: 1700}, {Attack: "reregister-longer", Clock: -1},
	{Attack: "blob-resign", KeyRole: "att1"}, {Attack: "blob-resign", KeyRole: "owner2"}, {Attack: "blob-bitflip"},
}

func (p *c07) Prepare(t *testing.T, tier string, seed uint64) {
	if _, ok := p.plans[tier]; ok {
		return
	}
	var plans []C07Plan
	for fi, f := range c01SweepFams {
		base := C07Plan{Seed: seed*4441 + uint64(fi)*311 + 5, Key: f.Key, Enc: f.Enc, Chain: 1, Addrs: 2, Attack: "honest"}
		bodies := map[int][]byte{}
		_, restore := SeedCrypto(base.Seed)
		synctest.Test(t, func(t *testing.T) {
			c07Run(&Env{T: t, Out: &Outcome{Faults: map[string]int{}, Probes: map[string]int{}}}, &base, bodies)
		})
		restore()
		for _, msg := range []int{30, 32} {
			for m := range AllMutations(bodies[msg]) {
				pl := base
				pl.Attack, pl.Msg, pl.Ord = "leaf", msg, m
				plans = append(plans, pl)
			}
		}
	}
	i := 0
	for _, k := range KeyTypes {
		for _, e := range KeyEncs {
			if k.IsRSA() && e == protocol.CoseKeyEnc {
				continue
			}
			for _, a := range c07Attacks {
				pl := a
				pl.Key, pl.Enc, pl.Chain = k.Name, uint8(e), 1+i%2
				pl.Addrs = i
				pl.Sql = strings.HasPrefix(a.Attack, "clock") || ((strings.HasPrefix(a.Attack, "reregister") || strings.HasPrefix(a.Attack, "policy")) && i%2 == 0) || i%4 == 0
				pl.Seed = seed*1_000_003 + uint64(i)*19 + 2
				i++
				plans = append(plans, pl)
			}
		}
	}
	p.plans[tier] = plans
}

func (p *c07) NumPlans(tier string) int { return len(p.plans[tier]) }
func (p *c07) Plan(tier string, seed uint64, i int) any {
	pl := p.plans[tier][i]
	return &pl
}
func (p *c07) Shrink(plan any) []any {
	pl := plan.(*C07Plan)
	var out []any
	if pl.Sql && !strings.HasPrefix(pl.Attack, "clock") {
		c := *pl
		c.Sql = false
		out = append(out, &c)
	}
	if pl.Chain > 1 {
		c := *pl
		c.Chain = 1
		out = append(out, &c)
	}
	return out
}
func (p *c07) Exec(env *Env, plan any) { c07Run(env, plan.(*C07Plan), nil) }

func c07Run(env *Env, pl *C07Plan, collect map[int][]byte) {
	o := env.Out
	cfg := keyCfgByName(pl.Key, pl.Enc)
	ctx := context.Background()
	s, cleanup := NewStdSql(nil, cfg, map[string]bool{"rv": pl.Sql})
	defer cleanup()
	setupFail := func(step string, err error) {
		o.Class = "setup-failed:" + step
		o.Violate("C07", "honest-setup", step+"|"+pl.Key, "honest preparation step %s failed for %+v: %v", step, *pl, err)
	}
	defer func() {
		env.Logf("plan=%+v class=%s", *pl, o.Class)
		for _, ev := range s.Net.Log {
			env.Logf("%d %s>%s %s %d/%d %s %v", ev.Seq, ev.From, ev.To, ev.Phase, ev.MsgType, ev.RespType, ev.BodyHash, ev.Faults)
		}
		for _, pr := range s.Net.Panics {
			o.Probe("panic:" + pr.Frame)
		}
		for k, v := range s.Net.Faults {
			o.Faults[k] += v
		}
	}()
	owners := c01Chains[pl.Chain]
	d1, _, err := s.Provision(ctx, "dev1", "dev1", "mfg", owners...)
	if err != nil {
		setupFail("provision", err)
		return
	}
	d2, _, err := s.Provision(ctx, "dev2", "dev2", "mfg", "owner1")
	if err != nil {
		setupFail("provision2", err)
		return
	}
	const ttl = 3600
	addrs := c07Addrs(pl.Addrs)
	on := s.Nodes["owner1"]
	var registered []byte // to1d bytes as sent by the owner in OwnerSign
	s.Net.AddHook(func(ev *NetEvent) {
		if ev.Phase == "req" && ev.MsgType == 22 && registered == nil {
			if n, err := ParseCBOR(ev.Body); err == nil && len(n.Kids) == 2 {
				registered = append([]byte(nil), ev.Body[n.Kids[1].Start:n.Kids[1].End]...)
			}
		}
		if collect != nil && ev.Phase == "req" && ev.From == "dev1" && (ev.MsgType == 30 || ev.MsgType == 32) {
			if _, ok := collect[int(ev.MsgType)]; !ok {
				collect[int(ev.MsgType)] = append([]byte(nil), ev.Body...)
			}
		}
	})
	regTime := time.Now()
	c := &fdo.TO0Client{Vouchers: on.Store, OwnerKeys: on.Store, TTL: ttl}
	if pl.Attack == "no-device-cert" {
		vb, ok := on.Sim.VoucherBytes(d1.Cred.GUID)
		n, perr := ParseCBOR(vb)
		if !ok || perr != nil || len(n.Kids) != 5 {
			setupFail("strip-cert-chain", fmt.Errorf("voucher bytes: ok=%v err=%v", ok, perr))
			return
		}
		stripped := append(append(append([]byte(nil), vb[:n.Kids[3].Start]...), 0xf6), vb[n.Kids[3].End:]...)
		on.Sim.PutVoucherBytes(d1.Cred.GUID, stripped)
		o.Fault("voucher-without-device-cert")
		if _, err := c.RegisterBlob(ctx, s.Transport("owner1", "rv"), d1.Cred.GUID, addrs); err != nil {
			// the rendezvous server does not take such vouchers: nothing to release
			o.Class = "certless-voucher-not-registered"
			return
		}
	} else if _, err := c.RegisterBlob(ctx, s.Transport("owner1", "rv"), d1.Cred.GUID, addrs); err != nil {
		setupFail("TO0", err)
		return
	}
	if _, err := c.RegisterBlob(ctx, s.Transport("owner1", "rv"), d2.Cred.GUID, c07Addrs(0)); err != nil {
		setupFail("TO0-dev2", err)
		return
	}

	adv := &RawClient{Net: s.Net, From: "adversary", To: "rv"}
	helloRV := func(cl *RawClient, g protocol.GUID) (protocol.Nonce, error) {
		b, _ := cbor.Marshal(struct {
			G protocol.GUID
			S hSigInfo
		}{g, hSigInfo{Type: coseSigAlg(cfg), Info: []byte{}}})
		rt, rb, err := cl.Send(30, b)
		if err != nil || rt != 31 {
			return protocol.Nonce{}, fmt.Errorf("HelloRV answered %d (%v)", rt, err)
		}
		var ack struct {
			N protocol.Nonce
			S hSigInfo
		}
		if err := cbor.Unmarshal(rb, &ack); err != nil {
			return protocol.Nonce{}, err
		}
		return ack.N, nil
	}
	ueid := func(g protocol.GUID) []byte { return append([]byte{1}, g[:]...) }
	opts := TO2Opts{Kex: defaultKex(cfg), Cipher: kex.A128GcmCipher}

	switch pl.Attack {
	case "honest", "blob-resign", "blob-bitflip":
		tampered := false
		if pl.Attack != "honest" {
			s.Net.AddHook(func(ev *NetEvent) {
				if ev.Phase == "resp" && ev.To == "dev1" && ev.RespType == 33 && !tampered {
					if pl.Attack == "blob-bitflip" {
						// flip one bit inside the signed payload (the address list)
						if n, err := ParseCBOR(ev.Body); err == nil {
							pay := n.Kids[0].Kids[2]
							b := append([]byte(nil), ev.Body...)
							b[pay.Start+pay.HeadLen+len(pay.Bytes)/2] ^= 0x04
							ev.Body = b
							ev.Fault("bitflip")
							tampered = true
						}
					} else {
						key := s.Keys.Get(pl.KeyRole, cfg.Fam())
						if nb, err := ResignTagged(ev.Body, key, cfg.PSS(), nil); err == nil {
							ev.Body = nb
							ev.Fault("resign")
							tampered = true
						}
					}
				}
			})
		}
		to1d, err := s.TO1(ctx, d1, "rv")
		if pl.Attack == "honest" {
			if err != nil {
				o.Class = "honest-failed"
				o.Violate("C07", "honest-run-must-succeed", pl.Key, "honest TO1 failed for %+v: %v", *pl, err)
				return
			}
			got, _ := cbor.Marshal(to1d.Tag())
			if string(got) != string(registered) {
				o.Violate("C07", "blob-fidelity", pl.Key+"|sql="+fmt.Sprint(pl.Sql), "blob received by the device differs from the blob registered:\n registered %x\n received   %x", registered, got)
			}
			// refcbor tree comparison of what went over the wire in 33 vs 22
			var wire33 []byte
			for _, ev := range s.Net.Log {
				if ev.Phase == "resp" && ev.RespType == 33 {
					wire33 = ev.Body
				}
			}
			if string(wire33) != string(registered) {
				o.Violate("C07", "blob-fidelity", "wire|"+pl.Key, "RVRedirect on the wire differs from the registered blob")
			}
			if ok, verr := to1d.Verify(s.Keys.Get("owner1", cfg.Fam()).Key.Public(), nil, nil); verr != nil || !ok {
				o.Violate("C07", "blob-fidelity", "signature|"+pl.Key, "owner signature of the received blob does not verify: %v", verr)
			}
			if _, err := s.TO2(ctx, d1, "owner1", to1d, opts); err != nil {
				o.Violate("C07", "blob-fidelity", "to2|"+pl.Key, "TO2 refused the blob obtained from TO1: %v", err)
			}
			o.Class = "honest-ok"
			o.Sample = map[string]any{"addrs": len(addrs), "blob_len": len(registered), "sql": pl.Sql}
			return
		}
		o.Nontrivial = true
		if err != nil || !tampered {
			o.Class = "to1-failed-after-tamper"
			return
		}
		before := string(d1.CredBlob)
		_, terr := s.TO2(ctx, d1, "owner1", to1d, opts)
		if terr == nil || string(d1.CredBlob) != before {
			o.Class = "ACCEPTED-ALTERED-BLOB"
			o.Violate("C07", "altered-blob-accepted", pl.Attack+"|"+pl.KeyRole, "TO2 accepted a rendezvous blob that was %s in transit", pl.Attack)
			return
		}
		o.Class = "to2-aborted"
		return

	case "policy-grants-less":
		// d2's registration (made above) is untouched; register d1 again under a policy
		rvn := s.Nodes["rv"]
		const granted = 300
		rvn.AcceptTTL = func(context.Context, fdo.Voucher, uint32) (uint32, error) { return granted, nil }
		rvn.Rebuild()
		time.Sleep(7 * time.Second)
		reg2 := time.Now()
		c2 := &fdo.TO0Client{Vouchers: on.Store, OwnerKeys: on.Store, TTL: ttl}
		got, err := c2.RegisterBlob(ctx, s.Transport("owner1", "rv"), d1.Cred.GUID, addrs)
		if err != nil {
			setupFail("TO0-under-policy", err)
			return
		}
		o.Nontrivial = true
		o.Fault("ttl-policy-grants-less")
		if got != granted {
			o.Violate("C07", "expiry", "acknowledged-ttl", "policy granted %d s, AcceptOwner acknowledged %d s", granted, got)
		}
		exp2 := reg2.Add(time.Duration(got) * time.Second)
		time.Sleep(time.Until(exp2.Add(time.Duration(pl.Clock) * time.Second)))
		_, err = s.TO1(ctx, d1, "rv")
		served := false
		for _, ev := range s.Net.Log {
			if ev.Phase == "resp" && ev.RespType == 33 {
				served = true
			}
		}
		o.Sample = map[string]any{"acknowledged_ttl": got, "clock_rel_expiry_s": pl.Clock, "served": served, "err": fmt.Sprint(err)}
		switch {
		case pl.Clock < 0 && (!served || err != nil):
			o.Class = "REFUSED-BEFORE-EXPIRY"
			o.Violate("C07", "expiry", "early|"+pl.Attack, "blob refused %ds before the acknowledged expiry (ttl %d): %v", -pl.Clock, got, err)
		case pl.Clock > 0 && (served || err == nil):
			o.Class = "SERVED-AFTER-EXPIRY"
			o.Violate("C07", "expiry", "late|"+pl.Attack, "blob served %ds after the acknowledged expiry (granted ttl %d, requested %d)", pl.Clock, got, ttl)
		case pl.Clock < 0:
			o.Class = "served-before-expiry"
		default:
			o.Class = "refused-after-expiry"
		}
		return

	case "reregister-shorter", "reregister-longer":
		// second TO0 for the same voucher with another lifetime and other addresses
		ttl2 := uint32(120)
		if pl.Attack == "reregister-longer" {
			ttl2 = 2 * ttl
		}
		time.Sleep(5 * time.Second)
		reg2 := time.Now()
		c2 := &fdo.TO0Client{Vouchers: on.Store, OwnerKeys: on.Store, TTL: ttl2}
		got, err := c2.RegisterBlob(ctx, s.Transport("owner1", "rv"), d1.Cred.GUID, c07Addrs(pl.Addrs+1))
		if err != nil {
			setupFail("TO0-again", err)
			return
		}
		o.Nontrivial = true
		o.Fault("reregistration")
		exp2 := reg2.Add(time.Duration(got) * time.Second)
		time.Sleep(time.Until(exp2.Add(time.Duration(pl.Clock) * time.Second)))
		_, err = s.TO1(ctx, d1, "rv")
		served := false
		for _, ev := range s.Net.Log {
			if ev.Phase == "resp" && ev.RespType == 33 {
				served = true
			}
		}
		o.Sample = map[string]any{"acknowledged_ttl": got, "clock_rel_expiry_s": pl.Clock, "served": served, "err": fmt.Sprint(err)}
		switch {
		case pl.Clock < 0 && (!served || err != nil):
			o.Class = "REFUSED-BEFORE-EXPIRY"
			o.Violate("C07", "expiry", "early|"+pl.Attack, "blob refused %ds before the expiry acknowledged for the latest registration (ttl %d): %v", -pl.Clock, got, err)
		case pl.Clock > 0 && (served || err == nil):
			o.Class = "SERVED-AFTER-EXPIRY"
			o.Violate("C07", "expiry", "late|"+pl.Attack, "blob served %ds after the expiry acknowledged for the latest registration (ttl %d)", pl.Clock, got)
		case pl.Clock < 0:
			o.Class = "served-before-expiry"
		default:
			o.Class = "refused-after-expiry"
		}
		return

	case "clock", "clock-midsession":
		exp := regTime.Add(ttl * time.Second)
		o.Nontrivial = true
		o.Fault("clock_jump")
		var err error
		if pl.Attack == "clock" {
			time.Sleep(time.Until(exp.Add(time.Duration(pl.Clock) * time.Second)))
			_, err = s.TO1(ctx, d1, "rv")
		} else {
			// registration expires between HelloRV and ProveToRV
			jumped := false
			s.Net.AddHook(func(ev *NetEvent) {
				if ev.Phase == "req" && ev.MsgType == 32 && !jumped {
					jumped = true
					time.Sleep(time.Until(exp.Add(time.Duration(pl.Clock) * time.Second)))
				}
			})
			time.Sleep(time.Until(exp.Add(-2 * time.Second)))
			_, err = s.TO1(ctx, d1, "rv")
		}
		served := false
		for _, ev := range s.Net.Log {
			if ev.Phase == "resp" && ev.RespType == 33 {
				served = true
			}
		}
		o.Sample = map[string]any{"clock_rel_expiry_s": pl.Clock, "served": served, "err": fmt.Sprint(err)}
		switch {
		case pl.Clock < 0 && (!served || err != nil):
			o.Class = "REFUSED-BEFORE-EXPIRY"
			o.Violate("C07", "expiry", "early|"+pl.Attack, "blob refused %ds before expiry: %v", -pl.Clock, err)
		case pl.Clock > 0 && (served || err == nil):
			o.Class = "SERVED-AFTER-EXPIRY"
			o.Violate("C07", "expiry", "late|"+pl.Attack, "blob served %ds after expiry (attack %s)", pl.Clock, pl.Attack)
		case pl.Clock < 0:
			o.Class = "served-before-expiry"
		default:
			o.Class = "refused-after-expiry"
		}
		return

	case "leaf":
		var mut Mutation
		var orig, mutated []byte
		hit := false
		s.Net.AddHook(func(ev *NetEvent) {
			if ev.Phase == "req" && ev.From == "dev1" && int(ev.MsgType) == pl.Msg && !hit {
				muts := AllMutations(ev.Body)
				mut = muts[pl.Ord%len(muts)]
				orig, mutated = ev.Body, mut.ApplyAny()
				ev.Body = mutated
				ev.Fault(fmt.Sprintf("leaf:%d", pl.Msg))
				hit = true
			}
		})
		_, err := s.TO1(ctx, d1, "rv")
		served := false
		for _, ev := range s.Net.Log {
			if ev.Phase == "resp" && ev.RespType == 33 {
				served = true
			}
		}
		bound := pl.Msg == 32 && mut.Semantic && string(orig) != string(mutated) && !strings.HasPrefix(mut.Kind, "raw:") && signRegion(mut.Path, "") == "bound"
		o.Nontrivial = true
		o.Sample = map[string]any{"mutation": mut.String(), "must_reject": bound, "served": served, "err": fmt.Sprint(err)}
		if bound && served {
			o.Class = "SERVED-ALTERED-TOKEN"
			o.Violate("C07", "altered-token-served", fmt.Sprintf("leaf|%s|%s", regionKey(mut.Path), mut.Kind), "rendezvous server released the blob for a ProveToRV altered by %s", mut)
			return
		}
		if bound {
			o.Class = "rejected"
		} else if served {
			o.Class = "either-accepted"
		} else {
			o.Class = "either-rejected"
		}
		return
	}

	// adversary-originated TO1 sessions
	storeFault := ""
	if a, m, ok := strings.Cut(pl.Attack, "+fail:"); ok {
		cp := *pl
		cp.Attack = a
		pl, storeFault = &cp, m
	}
	mustReject := true
	var body []byte
	switch pl.Attack {
	case "forged-signer", "control-builder", "wrong-nonce", "no-device-cert":
		n, err := helloRV(adv, d1.Cred.GUID)
		if err != nil {
			setupFail("helloRV", err)
			return
		}
		signer := d1.Key
		if pl.Attack == "forged-signer" || pl.Attack == "no-device-cert" {
			signer = s.Keys.Get(pl.KeyRole, cfg.Fam())
		}
		if pl.Attack == "control-builder" {
			mustReject = false
		}
		if pl.Attack == "wrong-nonce" {
			n = randNonce()
		}
		body, err = BuildEAT(EATSpec{Nonce: n[:], UEID: ueid(d1.Cred.GUID)}, signer, cfg.PSS())
		if err != nil {
			setupFail("build-eat", err)
			return
		}
	case "replay-other-session":
		var rec32 []byte
		s.Net.AddHook(func(ev *NetEvent) {
			if ev.Phase == "req" && ev.MsgType == 32 && ev.From == "dev1" {
				rec32 = ev.Body
			}
		})
		if _, err := s.TO1(ctx, d1, "rv"); err != nil {
			setupFail("recorded-TO1", err)
			return
		}
		if _, err := helloRV(adv, d1.Cred.GUID); err != nil {
			setupFail("helloRV", err)
			return
		}
		body = rec32
		adv.Fault("substitute")
	case "token-other-guid":
		// a genuine token of dev2 (made over the adversary session's nonce by a
		// MITM) presented to obtain dev1's blob: its UEID names dev2, so at most
		// dev2's blob may come back; dev1's must not
		n, err := helloRV(adv, d1.Cred.GUID)
		if err != nil {
			setupFail("helloRV", err)
			return
		}
		body, err = BuildEAT(EATSpec{Nonce: n[:], UEID: ueid(d2.Cred.GUID)}, d2.Key, cfg.PSS())
		if err != nil {
			setupFail("build-eat", err)
			return
		}
		mustReject = false
	case "dev2-over-dev1-session":
		// session nonce correct, UEID names dev1, signed with dev2's key
		n, err := helloRV(adv, d1.Cred.GUID)
		if err != nil {
			setupFail("helloRV", err)
			return
		}
		body, err = BuildEAT(EATSpec{Nonce: n[:], UEID: ueid(d1.Cred.GUID)}, d2.Key, cfg.PSS())
		if err != nil {
			setupFail("build-eat", err)
			return
		}
	case "unregistered-guid":
		g := d1.Cred.GUID
		g[0] ^= 0xff
		if _, err := helloRV(adv, g); err == nil {
			o.Class = "NONCE-FOR-UNREGISTERED"
			o.Probe("helloRV-answered-for-unregistered-guid")
		}
		// ProveToRV in a session opened for a registered GUID but naming an
		// unregistered one
		n, err := helloRV(adv, d1.Cred.GUID)
		if err != nil {
			setupFail("helloRV", err)
			return
		}
		body, err = BuildEAT(EATSpec{Nonce: n[:], UEID: ueid(g)}, d1.Key, cfg.PSS())
		if err != nil {
			setupFail("build-eat", err)
			return
		}
	default:
		setupFail("unknown-attack", fmt.Errorf("%q", pl.Attack))
		return
	}
	if rvn := s.Nodes["rv"]; storeFault != "" && rvn.Sim != nil {
		rvn.Sim.FailNext[storeFault] = 1
	}
	rt, rb, _ := adv.Send(32, body)
	if rvn := s.Nodes["rv"]; storeFault != "" && rvn.Sim != nil {
		if rvn.Sim.FailNext[storeFault] == 0 {
			o.Fault("store-error:" + storeFault)
		}
		rvn.Sim.FailNext[storeFault] = 0
	}
	o.Nontrivial = true
	o.Sample = map[string]any{"attack": pl.Attack + ":" + pl.KeyRole, "response": rt}
	switch {
	case pl.Attack == "control-builder":
		if rt != 33 || string(rb) != string(registered) {
			o.Violate("C07", "correct-token-must-be-served", pl.Key, "a correct token signed with the device key was answered %d", rt)
		}
		o.Class = "control-ok"
	case pl.Attack == "token-other-guid":
		if rt == 33 && string(rb) == string(registered) {
			o.Class = "SERVED-OTHER-DEVICES-BLOB"
			o.Violate("C07", "blob-released-to-wrong-device", "token-other-guid", "dev1's blob was released for a token naming and signed by dev2")
			return
		}
		if rt == 33 {
			o.Probe("own-blob-served-in-foreign-session")
		}
		o.Class = "either"
	case mustReject && rt == 33:
		o.Class = "SERVED-UNPROVEN-PEER"
		o.Violate("C07", "blob-released-to-unproven-peer", pl.Attack+"|"+pl.KeyRole, "rendezvous server released the blob for %s (plan %+v)", pl.Attack, *pl)
	default:
		o.Class = "rejected"
	}
}
