package fdosim

// refcbor: a small CBOR reader/writer that shares nothing with /repo/cbor.
// Monitors and the structure-aware mutator use it so that what the harness
// sees on the wire does not depend on the code under test.

import (
	"encoding/binary"
	"errors"
	"fmt"
	"strings"
)

// CNode is one CBOR data item with the byte range it occupied.
type CNode struct {
	Major    byte   // 0..7
	Arg      uint64 // integer value / length / tag number / simple value
	HeadLen  int    // bytes of the head as found (1,2,3,5,9)
	Bytes    []byte // major 2,3
	Kids     []*CNode
	Start    int // offset of the head in the input
	End      int // offset just past the item
	Indef    bool
	wantHead int // when re-encoding: force this head size (0 = shortest)
	// Emb is the decoded content of a byte string that holds exactly one
	// canonically encoded CBOR item (FDO wraps payloads, headers and vouchers
	// this way). Walk descends into it with path segment "e".
	Emb *CNode
	// rawArg, when set, makes Encode emit a head claiming this length/count
	// without changing the content (length inflation).
	rawArg *uint64
}

var errCBOR = errors.New("refcbor: malformed")

// ParseCBOR decodes exactly one item that must span the whole input.
func ParseCBOR(b []byte) (*CNode, error) {
	n, err := parseItem(b, 0, 0)
	if err != nil {
		return nil, err
	}
	if n.End != len(b) {
		return n, fmt.Errorf("refcbor: %d trailing bytes", len(b)-n.End)
	}
	return n, nil
}

// ParseCBORPrefix decodes one item from the front of b.
func ParseCBORPrefix(b []byte) (*CNode, error) { return parseItem(b, 0, 0) }

func parseItem(b []byte, off, depth int) (*CNode, error) {
	if depth > 64 || off >= len(b) {
		return nil, errCBOR
	}
	ib := b[off]
	n := &CNode{Major: ib >> 5, Start: off}
	ai := ib & 0x1f
	p := off + 1
	switch {
	case ai < 24:
		n.Arg, n.HeadLen = uint64(ai), 1
	case ai == 24:
		if p+1 > len(b) {
			return nil, errCBOR
		}
		n.Arg, n.HeadLen = uint64(b[p]), 2
		p++
	case ai == 25:
		if p+2 > len(b) {
			return nil, errCBOR
		}
		n.Arg, n.HeadLen = uint64(binary.BigEndian.Uint16(b[p:])), 3
		p += 2
	case ai == 26:
		if p+4 > len(b) {
			return nil, errCBOR
		}
		n.Arg, n.HeadLen = uint64(binary.BigEndian.Uint32(b[p:])), 5
		p += 4
	case ai == 27:
		if p+8 > len(b) {
			return nil, errCBOR
		}
		n.Arg, n.HeadLen = binary.BigEndian.Uint64(b[p:]), 9
		p += 8
	case ai == 31:
		n.Indef, n.HeadLen = true, 1
	default:
		return nil, errCBOR
	}
	switch n.Major {
	case 0, 1:
		if n.Indef {
			return nil, errCBOR
		}
	case 2, 3:
		if n.Indef {
			return nil, errCBOR // not used by FDO; treat as malformed
		}
		if n.Arg > uint64(len(b)-p) {
			return nil, errCBOR
		}
		n.Bytes = b[p : p+int(n.Arg)]
		p += int(n.Arg)
		if n.Major == 2 && len(n.Bytes) > 0 && depth < 60 {
			if e, err := parseItem(n.Bytes, 0, depth+1); err == nil && e.End == len(n.Bytes) {
				if string(e.Encode(nil)) == string(n.Bytes) {
					n.Emb = e
				}
			}
		}
	case 4, 5:
		if n.Indef {
			return nil, errCBOR
		}
		cnt := n.Arg
		if n.Major == 5 {
			if cnt > 1<<30 {
				return nil, errCBOR
			}
			cnt *= 2
		}
		if cnt > uint64(len(b)-p) {
			return nil, errCBOR
		}
		for i := uint64(0); i < cnt; i++ {
			k, err := parseItem(b, p, depth+1)
			if err != nil {
				return nil, err
			}
			n.Kids = append(n.Kids, k)
			p = k.End
		}
	case 6:
		if n.Indef {
			return nil, errCBOR
		}
		k, err := parseItem(b, p, depth+1)
		if err != nil {
			return nil, err
		}
		n.Kids = []*CNode{k}
		p = k.End
	case 7:
		if n.Indef {
			return nil, errCBOR
		}
	}
	n.End = p
	return n, nil
}

func putHead(out []byte, major byte, arg uint64, force int) []byte {
	m := major << 5
	size := force
	if size == 0 {
		switch {
		case arg < 24:
			size = 1
		case arg <= 0xff:
			size = 2
		case arg <= 0xffff:
			size = 3
		case arg <= 0xffffffff:
			size = 5
		default:
			size = 9
		}
	}
	switch size {
	case 1:
		return append(out, m|byte(arg))
	case 2:
		return append(out, m|24, byte(arg))
	case 3:
		return binary.BigEndian.AppendUint16(append(out, m|25), uint16(arg))
	case 5:
		return binary.BigEndian.AppendUint32(append(out, m|26), uint32(arg))
	default:
		return binary.BigEndian.AppendUint64(append(out, m|27), arg)
	}
}

// Encode re-encodes the tree (shortest heads unless a node forces one).
func (n *CNode) Encode(out []byte) []byte {
	switch n.Major {
	case 0, 1, 7:
		return putHead(out, n.Major, n.Arg, n.wantHead)
	case 2, 3:
		body := n.Bytes
		if n.Emb != nil {
			body = n.Emb.Encode(nil)
		}
		l := uint64(len(body))
		if n.rawArg != nil {
			l = *n.rawArg
		}
		out = putHead(out, n.Major, l, n.wantHead)
		return append(out, body...)
	case 4:
		c := uint64(len(n.Kids))
		if n.rawArg != nil {
			c = *n.rawArg
		}
		out = putHead(out, 4, c, n.wantHead)
	case 5:
		c := uint64(len(n.Kids) / 2)
		if n.rawArg != nil {
			c = *n.rawArg
		}
		out = putHead(out, 5, c, n.wantHead)
	case 6:
		out = putHead(out, 6, n.Arg, n.wantHead)
	}
	for _, k := range n.Kids {
		out = k.Encode(out)
	}
	return out
}

// Int returns the integer value of a major 0/1 item.
func (n *CNode) Int() (int64, bool) {
	switch n.Major {
	case 0:
		return int64(n.Arg), true
	case 1:
		return -1 - int64(n.Arg), true
	}
	return 0, false
}

// Walk visits every item depth-first with its path (e.g. "/2/0").
func (n *CNode) Walk(path string, f func(path string, n *CNode)) {
	f(path, n)
	for i, k := range n.Kids {
		k.Walk(fmt.Sprintf("%s/%d", path, i), f)
	}
	if n.Emb != nil {
		n.Emb.Walk(path+"/e", f)
	}
}

// At returns the item at a Walk path.
func (n *CNode) At(path string) *CNode {
	cur := n
	for _, seg := range strings.Split(strings.Trim(path, "/"), "/") {
		if seg == "" {
			continue
		}
		if seg == "e" {
			if cur.Emb == nil {
				return nil
			}
			cur = cur.Emb
			continue
		}
		var i int
		if _, err := fmt.Sscanf(seg, "%d", &i); err != nil || i < 0 || i >= len(cur.Kids) {
			return nil
		}
		cur = cur.Kids[i]
	}
	return cur
}

// Leaves lists the paths of all items without children.
func (n *CNode) Leaves() []string {
	var out []string
	n.Walk("", func(p string, c *CNode) {
		if len(c.Kids) == 0 && c.Emb == nil {
			out = append(out, p)
		}
	})
	return out
}

// Embedded tries to parse a byte string as one embedded CBOR item (FDO wraps
// payloads in bstr).
func (n *CNode) Embedded() *CNode {
	if n.Emb != nil {
		return n.Emb
	}
	if n.Major != 2 || len(n.Bytes) == 0 {
		return nil
	}
	e, err := ParseCBOR(n.Bytes)
	if err != nil {
		return nil
	}
	return e
}

// MapGet finds the value for an integer key in a map item.
func (n *CNode) MapGet(key int64) *CNode {
	if n.Major != 5 {
		return nil
	}
	for i := 0; i+1 < len(n.Kids); i += 2 {
		if v, ok := n.Kids[i].Int(); ok && v == key {
			return n.Kids[i+1]
		}
	}
	return nil
}
