package fdosim

import (
	"bytes"
	"context"
	"fmt"
	"io"
	"sync"

	"github.com/fido-device-onboard/go-fdo/cbor"
	"github.com/fido-device-onboard/go-fdo/serviceinfo"
)

// ModEvent is one callback observed by an instrumented module.
type ModEvent struct {
	Side string // "device" or "owner"
	Mod  string
	Call string // Transition, Receive, Yield, HandleInfo, ProduceInfo
	Name string
	Data []byte
}

// ModRecorder collects module callbacks of one session side.
type ModRecorder struct {
	mu sync.Mutex
	Ev []ModEvent
}

func (r *ModRecorder) add(e ModEvent) {
	r.mu.Lock()
	r.Ev = append(r.Ev, e)
	r.mu.Unlock()
}

func (r *ModRecorder) Count(call string) int {
	r.mu.Lock()
	defer r.mu.Unlock()
	n := 0
	for _, e := range r.Ev {
		if call == "" || e.Call == call {
			n++
		}
	}
	return n
}

func (r *ModRecorder) Events() []ModEvent {
	r.mu.Lock()
	defer r.mu.Unlock()
	return append([]ModEvent(nil), r.Ev...)
}

// PingOwner is a minimal owner module: activates the device module, sends the
// given payloads as "ping" messages (one per round) and completes once each
// has been echoed back as "pong".
type PingOwner struct {
	Mod      string
	Payloads [][]byte
	Rec      *ModRecorder
	Journal  *Journal
	Node     string
	Token    string

	started bool
	sent    int
	got     int
	idle    int
	acc     []byte
	Errs    []string
}

func (p *PingOwner) HandleInfo(ctx context.Context, name string, body io.Reader) error {
	b, _ := io.ReadAll(body)
	p.Rec.add(ModEvent{Side: "owner", Mod: p.Mod, Call: "HandleInfo", Name: name, Data: b})
	p.Journal.Add(Effect{Node: p.Node, Token: p.Token, Op: "module.HandleInfo", Key: p.Mod + ":" + name, Digest: digest(b)})
	switch name {
	case "active":
		var a bool
		return cbor.Unmarshal(b, &a)
	case "pong":
		p.acc = append(p.acc, b...)
		var v []byte
		if err := cbor.Unmarshal(p.acc, &v); err != nil {
			return nil // value spans several DeviceServiceInfo messages
		}
		p.acc = nil
		if p.got < len(p.Payloads) && !bytes.Equal(v, p.Payloads[p.got]) {
			p.Errs = append(p.Errs, fmt.Sprintf("pong %d differs from ping", p.got))
		}
		p.got++
		return nil
	}
	return fmt.Errorf("unexpected message %q", name)
}

func (p *PingOwner) ProduceInfo(ctx context.Context, pr *serviceinfo.Producer) (bool, bool, error) {
	p.Rec.add(ModEvent{Side: "owner", Mod: p.Mod, Call: "ProduceInfo"})
	p.Journal.Add(Effect{Node: p.Node, Token: p.Token, Op: "module.ProduceInfo", Key: p.Mod})
	if !p.started {
		p.started = true
		b, _ := cbor.Marshal(true)
		return false, false, pr.WriteChunk("active", b)
	}
	if p.got < p.sent {
		// still waiting for an echo; a module must not poll the device forever
		// (the device would loop up to its 1e6-round limit)
		if p.idle++; p.idle > 20 {
			return false, false, fmt.Errorf("device never answered ping %d", p.got)
		}
	} else {
		p.idle = 0
	}
	if p.sent < len(p.Payloads) && p.got == p.sent {
		b, _ := cbor.Marshal(p.Payloads[p.sent])
		if len(b) > pr.Available("ping") {
			return false, false, fmt.Errorf("ping payload of %d bytes exceeds available %d", len(b), pr.Available("ping"))
		}
		p.sent++
		return false, false, pr.WriteChunk("ping", b)
	}
	return false, p.got >= len(p.Payloads), nil
}

// PongDevice echoes "ping" payloads as "pong" and records every callback.
type PongDevice struct {
	Mod    string
	Rec    *ModRecorder
	KYield func(site string) // kernel yield, may be nil
}

func (d *PongDevice) y(site string) {
	if d.KYield != nil {
		d.KYield(site)
	}
}

func (d *PongDevice) Transition(active bool) error {
	d.Rec.add(ModEvent{Side: "device", Mod: d.Mod, Call: "Transition", Name: fmt.Sprint(active)})
	return nil
}

func (d *PongDevice) Receive(ctx context.Context, name string, body io.Reader, respond func(string) io.Writer, yield func()) error {
	d.y("mod.receive")
	b, err := io.ReadAll(body)
	if err != nil {
		return err
	}
	d.Rec.add(ModEvent{Side: "device", Mod: d.Mod, Call: "Receive", Name: name, Data: b})
	if name != "ping" {
		return nil
	}
	w := respond("pong")
	h := len(b) / 2
	if _, err := w.Write(b[:h]); err != nil {
		return err
	}
	d.y("mod.midwrite")
	_, err = w.Write(b[h:])
	return err
}

func (d *PongDevice) Yield(ctx context.Context, respond func(string) io.Writer, yield func()) error {
	d.Rec.add(ModEvent{Side: "device", Mod: d.Mod, Call: "Yield"})
	return nil
}

// PingFactory returns a ModSM factory producing one PingOwner per session.
func PingFactory(node *Node, rec *ModRecorder, payloads [][]byte) func(ctx context.Context, token string) []NamedModule {
	return func(ctx context.Context, token string) []NamedModule {
		return []NamedModule{{Name: "ping", Mod: &PingOwner{Mod: "ping", Payloads: payloads, Rec: rec, Journal: node.Journal, Node: node.Name, Token: token}}}
	}
}
