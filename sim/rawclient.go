package fdosim

import (
	"crypto/rand"
	"crypto/rsa"
	"fmt"
	"io"

	"github.com/fido-device-onboard/go-fdo/cbor"
	"github.com/fido-device-onboard/go-fdo/cose"
	"github.com/fido-device-onboard/go-fdo/kex"
	"github.com/fido-device-onboard/go-fdo/protocol"
)

// RawClient is the adversary's own client: it sends arbitrary bodies with any
// token to a node and sees the raw answer.
type RawClient struct {
	HangUp   bool // disconnect as soon as the server starts to answer
	Net      *Net
	From, To string
	Token    string // Authorization header value sent with the next request
	Sent     int
}

// Send delivers one request. The token returned by the server is adopted for
// the following requests unless keepToken is set by the caller afterwards.
func (c *RawClient) Send(msgType uint8, body []byte) (respType int, resp []byte, err error) {
	c.Sent++
	ev := &NetEvent{From: c.From, To: c.To, Phase: "req", MsgType: msgType, Token: c.Token, Body: body, OrigBody: body,
		ContentType: "application/cbor", Session: "adversary", Adversary: true, HangUp: c.HangUp}
	ev.Fault("inject")
	r, err := c.Net.Deliver(ev)
	if err != nil {
		return -1, nil, err
	}
	b, _ := io.ReadAll(r.Body)
	rt := -1
	if r.StatusCode == 200 {
		fmt.Sscanf(r.Header.Get("Message-Type"), "%d", &rt)
	} else if r.StatusCode == 500 && r.Header.Get("Content-Type") == "application/cbor" {
		rt = 255
	} else {
		rt = -r.StatusCode
	}
	if t := r.Header.Get("Authorization"); t != "" {
		c.Token = t
	}
	return rt, b, nil
}

// Harness mirrors of request structures.
type hHelloDevice struct {
	MaxDeviceMessageSize uint16
	GUID                 protocol.GUID
	NonceTO2ProveOV      protocol.Nonce
	KexSuiteName         string
	CipherSuite          int64
	SigInfoA             hSigInfo
}

// COSE signature algorithm ids (RFC 9053): transcribed, not imported.
func coseSigAlg(cfg KeyCfg) int64 {
	switch cfg.Type {
	case protocol.Secp256r1KeyType:
		return -7
	case protocol.Secp384r1KeyType:
		return -35
	case protocol.Rsa2048RestrKeyType:
		return -257
	case protocol.RsaPkcsKeyType:
		if cfg.Bits == 2048 {
			return -257
		}
		return -258
	default:
		if cfg.Bits == 2048 {
			return -37
		}
		return -38
	}
}

func randNonce() (n protocol.Nonce) { _, _ = rand.Read(n[:]); return }

// HelloDeviceBody builds a TO2.HelloDevice request.
func HelloDeviceBody(cfg KeyCfg, guid protocol.GUID, kx kex.Suite, cipher kex.CipherSuiteID) ([]byte, protocol.Nonce) {
	n := randNonce()
	b, _ := cbor.Marshal(hHelloDevice{MaxDeviceMessageSize: 65535, GUID: guid, NonceTO2ProveOV: n, KexSuiteName: string(kx), CipherSuite: int64(cipher),
		SigInfoA: hSigInfo{Type: coseSigAlg(cfg), Info: []byte{}}})
	return b, n
}

// ProveOVHdrView is what an attacker learns from TO2.ProveOVHdr.
type ProveOVHdrView struct {
	NumEntries  int
	KexA        []byte
	ProveNonce  protocol.Nonce
	OwnerPubKey protocol.PublicKey
}

func ParseProveOVHdr(body []byte) (*ProveOVHdrView, error) {
	var m cose.Sign1Tag[hOvhProof, []byte]
	if err := cbor.Unmarshal(body, &m); err != nil {
		return nil, err
	}
	v := &ProveOVHdrView{NumEntries: int(m.Payload.Val.NumOVEntries), KexA: m.Payload.Val.KeyExchangeA}
	if ok, err := m.Unprotected.Parse(cose.Label{Int64: 256}, &v.ProveNonce); err != nil || !ok {
		return nil, fmt.Errorf("no CUPHNonce: %v", err)
	}
	if ok, err := m.Unprotected.Parse(cose.Label{Int64: 257}, &v.OwnerPubKey); err != nil || !ok {
		return nil, fmt.Errorf("no CUPHOwnerPubKey: %v", err)
	}
	return v, nil
}

// EATSpec describes a ProveDevice / ProveToRV token to forge.
type EATSpec struct {
	Nonce      []byte // claim 10; nil = omit
	UEID       []byte // claim 256; nil = omit
	FdoClaim   any    // claim -257; nil = omit
	SetupNonce *protocol.Nonce
}

// BuildEAT signs an entity attestation token with key e.
func BuildEAT(spec EATSpec, e *KeyEntry, pss bool) ([]byte, error) {
	claims := map[int64]any{}
	if spec.Nonce != nil {
		claims[10] = spec.Nonce
	}
	if spec.UEID != nil {
		claims[256] = spec.UEID
	}
	if spec.FdoClaim != nil {
		claims[-257] = spec.FdoClaim
	}
	s := cose.Sign1[map[int64]any, []byte]{Payload: cbor.NewByteWrap(claims)}
	if spec.SetupNonce != nil {
		s.Header.Unprotected = map[cose.Label]any{{Int64: -259}: *spec.SetupNonce}
	}
	if err := s.Sign(e.Key, nil, nil, SignOpts(e, pss)); err != nil {
		return nil, err
	}
	return cbor.Marshal(s.Tag())
}

// DeviceKexParam runs the device half of the key exchange against xA and
// returns xB and the session.
func DeviceKexParam(kx kex.Suite, cipher kex.CipherSuiteID, xA []byte, ownerPub *protocol.PublicKey) ([]byte, kex.Session, error) {
	sess := kx.New(append([]byte(nil), xA...), cipher)
	if sess == nil {
		return nil, nil, fmt.Errorf("unknown suite")
	}
	var rsaPub *rsa.PublicKey
	if ownerPub != nil {
		if k, err := ownerPub.Public(); err == nil {
			rsaPub, _ = k.(*rsa.PublicKey)
		}
	}
	xB, err := sess.Parameter(rand.Reader, rsaPub)
	return xB, sess, err
}
