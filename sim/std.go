package fdosim

import (
	"context"
	"crypto"
	"crypto/rsa"
	"fmt"

	fdo "github.com/fido-device-onboard/go-fdo"
	"github.com/fido-device-onboard/go-fdo/cbor"
	"github.com/fido-device-onboard/go-fdo/cose"
	"github.com/fido-device-onboard/go-fdo/protocol"
)

// Std is the standard deployment used by the adversary scenarios: two
// manufacturers, one rendezvous server, three owner services.
type Std struct {
	*World
	Cfg KeyCfg
}

func NewStd(k *Kernel, cfg KeyCfg) *Std {
	s, _ := NewStdSql(k, cfg, nil)
	return s
}

// NewStdSql is NewStd with the named nodes on the real sqlite backend. The
// returned cleanup closes and removes the database files.
func NewStdSql(k *Kernel, cfg KeyCfg, sqlNodes map[string]bool) (*Std, func()) {
	w := NewWorld(k)
	var cleanups []func()
	add := func(name, mfgRole, ownerRole string) *Node {
		if sqlNodes[name] {
			n, c, err := w.AddSqlNode(name, mfgRole, ownerRole)
			if err != nil {
				panic(fmt.Sprintf("sqlite node %s: %v", name, err))
			}
			cleanups = append(cleanups, c)
			return n
		}
		return w.AddSimNode(name, mfgRole, ownerRole)
	}
	for _, m := range []string{"mfg", "mfg2"} {
		add(m, m, "").MfgBits = cfg.Bits
	}
	add("rv", "", "")
	for _, o := range []string{"owner1", "owner2", "owner3"} {
		add(o, "", o)
	}
	return &Std{World: w, Cfg: cfg}, func() {
		for _, c := range cleanups {
			c()
		}
	}
}

// Provision runs DI for a new device at mfgNode and extends the voucher along
// owners (roles); the voucher ends up stored at the node named like the last
// role. It returns the device and every intermediate voucher (index i has i
// entries).
func (s *Std) Provision(ctx context.Context, devName, devRole, mfgNode string, owners ...string) (*Device, []*fdo.Voucher, error) {
	d := s.NewDevice(devName, devRole, s.Cfg)
	if err := s.DI(ctx, d, mfgNode); err != nil {
		return nil, nil, fmt.Errorf("DI: %w", err)
	}
	ov, err := s.Nodes[mfgNode].Store.RemoveVoucher(ctx, d.Cred.GUID)
	if err != nil {
		return nil, nil, err
	}
	chain := []*fdo.Voucher{ov}
	prev := mfgNode // role name equals node name for manufacturers
	for _, o := range owners {
		xv, err := ExtendWith(ov, s.Keys.Get(prev, s.Cfg.Fam()), s.Keys.Get(o, s.Cfg.Fam()), s.Cfg)
		if err != nil {
			return nil, nil, fmt.Errorf("extend %s->%s: %w", prev, o, err)
		}
		ov, prev = xv, o
		chain = append(chain, ov)
	}
	if len(owners) > 0 {
		if err := s.Nodes[prev].Store.AddVoucher(ctx, ov); err != nil {
			return nil, nil, err
		}
	}
	return d, chain, nil
}

// SignOpts returns the signer options FDO prescribes for key e.
func SignOpts(e *KeyEntry, pss bool) crypto.SignerOpts {
	pub, ok := e.Key.Public().(*rsa.PublicKey)
	if !ok {
		return nil
	}
	var h crypto.Hash = crypto.SHA256
	if pub.Size() == 384 {
		h = crypto.SHA384
	}
	if pss {
		return &rsa.PSSOptions{SaltLength: rsa.PSSSaltLengthEqualsHash, Hash: h}
	}
	return h
}

// ResignTagged re-signs a tagged COSE_Sign1 (payload bytes kept verbatim)
// with key e after applying edit.
func ResignTagged(body []byte, e *KeyEntry, pss bool, edit func(s *cose.Sign1[cbor.RawBytes, []byte])) ([]byte, error) {
	var t cose.Sign1Tag[cbor.RawBytes, []byte]
	if err := cbor.Unmarshal(body, &t); err != nil {
		return nil, err
	}
	s := t.Untag()
	if edit != nil {
		edit(s)
	}
	s.Protected = nil
	if err := s.Sign(e.Key, nil, nil, SignOpts(e, pss)); err != nil {
		return nil, err
	}
	return cbor.Marshal(s.Tag())
}

// lyingStore serves a fixed voucher whatever GUID is asked for: with it the
// real TO2Server becomes a rogue owner that presents a voucher of its choice.
type lyingStore struct {
	*SimStore
	ov *fdo.Voucher
}

func (l lyingStore) Voucher(ctx context.Context, g protocol.GUID) (*fdo.Voucher, error) {
	b, err := cbor.Marshal(l.ov)
	if err != nil {
		return nil, err
	}
	var ov fdo.Voucher
	if err := cbor.Unmarshal(b, &ov); err != nil {
		return nil, err
	}
	return &ov, nil
}

// AddRogueOwner adds a node running the real TO2 responder over a store that
// always presents ov and holds the owner keys of keyRole.
func (s *Std) AddRogueOwner(name, keyRole string, ov *fdo.Voucher) *Node {
	st := NewSimStore(name, s.Journal)
	if s.K != nil {
		st.SetYield(func(site string) { s.K.Yield(site) })
	}
	s.provision(func(t protocol.KeyType, bits int, e *KeyEntry) { st.AddOwnerKey(t, bits, e) }, keyRole)
	n := &Node{Name: name, Store: lyingStore{st, ov}, Sim: st, Journal: s.Journal, MfgBits: s.Cfg.Bits, DevCA: s.Keys.Get("devca", P384)}
	n.VerifyOV = func(context.Context, fdo.Voucher) error { return nil }
	s.Nodes[name] = n
	s.Net.AddNode(n)
	return n
}

// DevObs is what the device-side observer saw of one TO2 attempt.
type DevObs struct {
	Err         error
	Reused      bool
	Panicked    bool
	CredChanged bool
	ModCalls    int
	Sent64      bool // a ProveDevice request left the device after the tamper point
}

// Accepted reports whether the device treated the peer as its owner in any of
// the three ways C01 names: credential returned / reuse success, module
// callbacks, or ProveDevice sent.
func (o DevObs) Accepted() bool {
	return o.Err == nil || o.CredChanged || o.ModCalls > 0 || o.Sent64
}

func (o DevObs) String() string {
	return fmt.Sprintf("err=%v reused=%v credChanged=%v modCalls=%d sent64=%v panicked=%v", o.Err, o.Reused, o.CredChanged, o.ModCalls, o.Sent64, o.Panicked)
}

// ObservedTO2 runs TO2 for d and observes the device side. tampered() reports
// whether the adversary has acted yet (64 before that point is legitimate).
func (s *Std) ObservedTO2(ctx context.Context, d *Device, owner string, to1d *to1dT, opts TO2Opts, rec *ModRecorder, tampered func() bool) DevObs {
	var obs DevObs
	before := string(d.CredBlob)
	calls0 := rec.Count("")
	s.Net.AddHook(func(ev *NetEvent) {
		if ev.Phase == "req" && ev.MsgType == 64 && ev.From == d.Name && tampered() {
			obs.Sent64 = true
		}
	})
	obs.Err, obs.Panicked = s.Net.SafeCall("TO2:"+d.Name, func() (e error) { obs.Reused, e = s.TO2(ctx, d, owner, to1d, opts); return })
	obs.CredChanged = string(d.CredBlob) != before
	obs.ModCalls = rec.Count("") - calls0
	return obs
}
