package fdosim

import (
	"io"
	_ "unsafe" // go:linkname
)

// Seeded crypto randomness: the harness installs a deterministic byte stream
// as the testing reader of crypto/internal/rand (the mechanism behind
// testing/cryptotest.SetGlobalRandom). crypto/rand.Reader itself is left
// untouched, see DESIGN.md §2.5.
//
//go:linkname randSetTestingReader crypto/internal/rand.SetTestingReader
func randSetTestingReader(r io.Reader)

// seededReader is a xoshiro256** stream. It is deliberately lock-free and
// invisible to the race detector (//go:norace, no calls): under the kernel
// only one task runs at a time, and a mutex here would add happens-before
// edges between sessions at every nonce/signature and blind the detector.
// Cryptographic quality is irrelevant; only determinism and uniformity matter.
type seededReader struct {
	s     [4]uint64
	reads int
	bytes int
}

//go:norace
func (r *seededReader) Read(b []byte) (int, error) {
	r.reads++
	r.bytes += len(b)
	i := 0
	for i < len(b) {
		s := &r.s
		x := s[1] * 5
		res := ((x << 7) | (x >> 57)) * 9
		t := s[1] << 17
		s[2] ^= s[0]
		s[3] ^= s[1]
		s[1] ^= s[2]
		s[0] ^= s[3]
		s[2] ^= t
		s[3] = (s[3] << 45) | (s[3] >> 19)
		for j := 0; j < 8 && i < len(b); j++ {
			b[i] = byte(res >> (8 * j))
			i++
		}
	}
	return len(b), nil
}

// SeedCrypto makes every crypto/rand draw in this process a function of seed
// until the returned restore function is called.
func SeedCrypto(seed uint64) (stats func() (reads, bytes int), restore func()) {
	r := &seededReader{}
	z := seed ^ 0x6664_6f73_696d_2121
	for i := range r.s {
		z += 0x9e3779b97f4a7c15
		x := z
		x = (x ^ (x >> 30)) * 0xbf58476d1ce4e5b9
		x = (x ^ (x >> 27)) * 0x94d049bb133111eb
		r.s[i] = x ^ (x >> 31)
	}
	randSetTestingReader(r)
	return func() (int, int) { return r.reads, r.bytes },
		func() { randSetTestingReader(nil) }
}
