package fdosim

import (
	"context"
	"crypto"
	"crypto/rand"
	"crypto/sha256"
	"crypto/x509"
	"encoding"
	"encoding/base64"
	"encoding/hex"
	"errors"
	"fmt"
	"sort"
	"sync"
	"time"

	fdo "github.com/fido-device-onboard/go-fdo"
	"github.com/fido-device-onboard/go-fdo/cbor"
	"github.com/fido-device-onboard/go-fdo/cose"
	"github.com/fido-device-onboard/go-fdo/kex"
	"github.com/fido-device-onboard/go-fdo/protocol"
	"github.com/fido-device-onboard/go-fdo/serviceinfo"
)

// Backend is everything a simulated server node needs from its state store.
// simstore.SimStore and the sqlite wrapper both implement it.
type Backend interface {
	protocol.TokenService
	fdo.DISessionState
	fdo.TO0SessionState
	fdo.TO1SessionState
	fdo.TO2SessionState
	fdo.RendezvousBlobPersistentState
	fdo.OwnerVoucherPersistentState
	fdo.OwnerKeyPersistentState
	fdo.VoucherReseller
	ManufacturerKey(ctx context.Context, keyType protocol.KeyType, rsaBits int) (crypto.Signer, []*x509.Certificate, error)
}

// Effect is one entry of the run-wide effect journal.
type Effect struct {
	Seq    int    `json:"seq"`
	Node   string `json:"node"`
	Token  string `json:"token,omitempty"`
	Op     string `json:"op"`
	Key    string `json:"key,omitempty"`
	Digest string `json:"digest,omitempty"`
	Note   string `json:"note,omitempty"`
}

// Journal is the ordered list of state effects of a run. Appends are atomic
// steps; the order is the kernel's total order.
type Journal struct {
	mu  sync.Mutex
	seq int
	E   []Effect
}

func (j *Journal) Add(e Effect) int {
	if j == nil {
		return 0
	}
	j.mu.Lock()
	defer j.mu.Unlock()
	j.seq++
	e.Seq = j.seq
	j.E = append(j.E, e)
	return e.Seq
}

func (j *Journal) Len() int {
	if j == nil {
		return 0
	}
	j.mu.Lock()
	defer j.mu.Unlock()
	return len(j.E)
}

// Since returns the effects appended after index n.
func (j *Journal) Since(n int) []Effect {
	if j == nil {
		return nil
	}
	j.mu.Lock()
	defer j.mu.Unlock()
	return append([]Effect(nil), j.E[n:]...)
}

func digest(b []byte) string {
	s := sha256.Sum256(b)
	return hex.EncodeToString(s[:6])
}

type sessRec struct {
	proto  protocol.Protocol
	fields map[string][]byte
}

type rvRec struct {
	to1d    []byte
	voucher []byte
	exp     time.Time
}

type keyID struct {
	typ  protocol.KeyType
	bits int
}

// SimStore is the journalled in-memory backend. Every value is stored
// serialised, as the sqlite backend does, so each message is handled from
// re-loaded state and no pointer is shared between sessions.
type SimStore struct {
	// OwnerKeyNoChain: OwnerKey returns the signer without a certificate chain
	// even for keys that have one.
	OwnerKeyNoChain bool
	mu       sync.Mutex
	node     string
	j        *Journal
	sessions map[string]*sessRec
	vouchers map[protocol.GUID][]byte
	rvblobs  map[protocol.GUID]rvRec
	owner    map[keyID]*KeyEntry
	mfg      map[keyID]*KeyEntry
	// FailNext[method] = n makes the next n calls of method return ErrInjected.
	FailNext map[string]int
	// FailAt[method] = j fails exactly the j-th call (1-based) of method.
	FailAt map[string]int
	Calls  map[string]int
	Fired  map[string]int
	yield  func(site string)
}

// ErrInjected is returned by a store method hit by an injected disk error.
var ErrInjected = errors.New("simstore: injected storage error")

func NewSimStore(node string, j *Journal) *SimStore {
	return &SimStore{
		node:     node,
		j:        j,
		sessions: map[string]*sessRec{},
		vouchers: map[protocol.GUID][]byte{},
		rvblobs:  map[protocol.GUID]rvRec{},
		owner:    map[keyID]*KeyEntry{},
		mfg:      map[keyID]*KeyEntry{},
		FailNext: map[string]int{},
		FailAt:   map[string]int{},
		Calls:    map[string]int{},
		Fired:    map[string]int{},
	}
}

// SetYield installs the kernel yield called before every state method.
func (s *SimStore) SetYield(f func(string)) { s.yield = f }

func normKey(t protocol.KeyType, bits int) keyID {
	switch t {
	case protocol.Rsa2048RestrKeyType:
		return keyID{t, 2048}
	case protocol.RsaPkcsKeyType, protocol.RsaPssKeyType:
		return keyID{t, bits}
	default:
		return keyID{t, 0}
	}
}

func (s *SimStore) AddOwnerKey(t protocol.KeyType, bits int, e *KeyEntry) {
	s.owner[normKey(t, bits)] = e
}
func (s *SimStore) AddMfgKey(t protocol.KeyType, bits int, e *KeyEntry) { s.mfg[normKey(t, bits)] = e }
func (s *SimStore) ClearOwnerKeys()                                     { s.owner = map[keyID]*KeyEntry{} }

// DropSessions models a restart that loses volatile session state.
func (s *SimStore) DropSessions() {
	s.mu.Lock()
	defer s.mu.Unlock()
	s.sessions = map[string]*sessRec{}
}

// enter is the common prologue: yield to the kernel (outside the lock), then
// apply an injected fault if one is armed for this method.
func (s *SimStore) enter(method string) error {
	if s.yield != nil {
		s.yield("store." + method)
	}
	s.mu.Lock()
	defer s.mu.Unlock()
	s.Calls[method]++
	if j := s.FailAt[method]; j > 0 && s.Calls[method] == j {
		s.Fired[method]++
		return fmt.Errorf("%w (%s call %d)", ErrInjected, method, j)
	}
	if n := s.FailNext[method]; n > 0 {
		s.FailNext[method] = n - 1
		s.Fired[method]++
		return fmt.Errorf("%w (%s)", ErrInjected, method)
	}
	return nil
}

type simTokenKey struct{}

func (s *SimStore) TokenContext(parent context.Context, token string) context.Context {
	return context.WithValue(parent, simTokenKey{}, token)
}

func (s *SimStore) TokenFromContext(ctx context.Context) (string, bool) {
	t, ok := ctx.Value(simTokenKey{}).(string)
	return t, ok
}

func (s *SimStore) NewToken(ctx context.Context, p protocol.Protocol) (string, error) {
	if err := s.enter("NewToken"); err != nil {
		return "", err
	}
	id := make([]byte, 24)
	if _, err := rand.Read(id); err != nil {
		return "", err
	}
	tok := base64.RawURLEncoding.EncodeToString(id)
	s.mu.Lock()
	s.sessions[tok] = &sessRec{proto: p, fields: map[string][]byte{}}
	s.mu.Unlock()
	s.j.Add(Effect{Node: s.node, Token: tok, Op: "NewToken", Key: p.String()})
	return tok, nil
}

func (s *SimStore) InvalidateToken(ctx context.Context) error {
	if err := s.enter("InvalidateToken"); err != nil {
		return err
	}
	tok, _ := s.TokenFromContext(ctx)
	s.mu.Lock()
	_, ok := s.sessions[tok]
	delete(s.sessions, tok)
	s.mu.Unlock()
	if !ok {
		return fdo.ErrNotFound
	}
	s.j.Add(Effect{Node: s.node, Token: tok, Op: "InvalidateToken"})
	return nil
}

// TokenValid reports whether tok currently grants access to session state.
func (s *SimStore) TokenValid(tok string) bool {
	s.mu.Lock()
	defer s.mu.Unlock()
	_, ok := s.sessions[tok]
	return ok
}

// Tokens lists the live tokens in stable order.
func (s *SimStore) Tokens() []string {
	s.mu.Lock()
	defer s.mu.Unlock()
	var out []string
	for t := range s.sessions {
		out = append(out, t)
	}
	sort.Strings(out)
	return out
}

func (s *SimStore) set(ctx context.Context, method, field string, val []byte, journal bool) error {
	if err := s.enter(method); err != nil {
		return err
	}
	tok, _ := s.TokenFromContext(ctx)
	s.mu.Lock()
	rec, ok := s.sessions[tok]
	if ok {
		rec.fields[field] = append([]byte(nil), val...)
	}
	s.mu.Unlock()
	if !ok {
		return fdo.ErrInvalidSession
	}
	if journal {
		s.j.Add(Effect{Node: s.node, Token: tok, Op: method, Digest: digest(val)})
	}
	return nil
}

func (s *SimStore) get(ctx context.Context, method, field string) ([]byte, error) {
	if err := s.enter(method); err != nil {
		return nil, err
	}
	tok, _ := s.TokenFromContext(ctx)
	s.mu.Lock()
	defer s.mu.Unlock()
	rec, ok := s.sessions[tok]
	if !ok {
		return nil, fdo.ErrInvalidSession
	}
	v, ok := rec.fields[field]
	if !ok {
		return nil, fdo.ErrNotFound
	}
	return append([]byte(nil), v...), nil
}

// SessionField exposes a raw stored session field to oracles.
func (s *SimStore) SessionField(tok, field string) ([]byte, bool) {
	s.mu.Lock()
	defer s.mu.Unlock()
	rec, ok := s.sessions[tok]
	if !ok {
		return nil, false
	}
	v, ok := rec.fields[field]
	return append([]byte(nil), v...), ok
}

// --- DI ---

func (s *SimStore) SetDeviceCertChain(ctx context.Context, chain []*x509.Certificate) error {
	var der []byte
	for _, c := range chain {
		der = append(der, c.Raw...)
	}
	return s.set(ctx, "SetDeviceCertChain", "di.chain", der, false)
}

func (s *SimStore) DeviceCertChain(ctx context.Context) ([]*x509.Certificate, error) {
	b, err := s.get(ctx, "DeviceCertChain", "di.chain")
	if err != nil {
		return nil, err
	}
	return x509.ParseCertificates(b)
}

func (s *SimStore) SetIncompleteVoucherHeader(ctx context.Context, ovh *fdo.VoucherHeader) error {
	b, err := cbor.Marshal(ovh)
	if err != nil {
		return err
	}
	return s.set(ctx, "SetIncompleteVoucherHeader", "di.ovh", b, false)
}

func (s *SimStore) IncompleteVoucherHeader(ctx context.Context) (*fdo.VoucherHeader, error) {
	b, err := s.get(ctx, "IncompleteVoucherHeader", "di.ovh")
	if err != nil {
		return nil, err
	}
	var ovh fdo.VoucherHeader
	if err := cbor.Unmarshal(b, &ovh); err != nil {
		return nil, err
	}
	return &ovh, nil
}

// --- TO0 / TO1 ---

func (s *SimStore) SetTO0SignNonce(ctx context.Context, n protocol.Nonce) error {
	return s.set(ctx, "SetTO0SignNonce", "to0.nonce", n[:], false)
}

func (s *SimStore) TO0SignNonce(ctx context.Context) (protocol.Nonce, error) {
	return s.nonce(ctx, "TO0SignNonce", "to0.nonce")
}

func (s *SimStore) SetTO1ProofNonce(ctx context.Context, n protocol.Nonce) error {
	return s.set(ctx, "SetTO1ProofNonce", "to1.nonce", n[:], false)
}

func (s *SimStore) TO1ProofNonce(ctx context.Context) (protocol.Nonce, error) {
	return s.nonce(ctx, "TO1ProofNonce", "to1.nonce")
}

func (s *SimStore) nonce(ctx context.Context, method, field string) (protocol.Nonce, error) {
	b, err := s.get(ctx, method, field)
	if err != nil {
		return protocol.Nonce{}, err
	}
	var n protocol.Nonce
	copy(n[:], b)
	return n, nil
}

// --- TO2 session ---

func (s *SimStore) SetGUID(ctx context.Context, g protocol.GUID) error {
	return s.set(ctx, "SetGUID", "to2.guid", g[:], false)
}

func (s *SimStore) GUID(ctx context.Context) (protocol.GUID, error) {
	b, err := s.get(ctx, "GUID", "to2.guid")
	var g protocol.GUID
	copy(g[:], b)
	return g, err
}

func (s *SimStore) SetRvInfo(ctx context.Context, rv [][]protocol.RvInstruction) error {
	b, err := cbor.Marshal(rv)
	if err != nil {
		return err
	}
	return s.set(ctx, "SetRvInfo", "to2.rvinfo", b, false)
}

func (s *SimStore) RvInfo(ctx context.Context) ([][]protocol.RvInstruction, error) {
	b, err := s.get(ctx, "RvInfo", "to2.rvinfo")
	if err != nil {
		return nil, err
	}
	var rv [][]protocol.RvInstruction
	if err := cbor.Unmarshal(b, &rv); err != nil {
		return nil, err
	}
	return rv, nil
}

func (s *SimStore) SetReplacementGUID(ctx context.Context, g protocol.GUID) error {
	return s.set(ctx, "SetReplacementGUID", "to2.rguid", g[:], false)
}

func (s *SimStore) ReplacementGUID(ctx context.Context) (protocol.GUID, error) {
	b, err := s.get(ctx, "ReplacementGUID", "to2.rguid")
	var g protocol.GUID
	copy(g[:], b)
	return g, err
}

func (s *SimStore) SetReplacementHmac(ctx context.Context, h protocol.Hmac) error {
	b, err := cbor.Marshal(h)
	if err != nil {
		return err
	}
	return s.set(ctx, "SetReplacementHmac", "to2.rhmac", b, true)
}

func (s *SimStore) ReplacementHmac(ctx context.Context) (protocol.Hmac, error) {
	b, err := s.get(ctx, "ReplacementHmac", "to2.rhmac")
	if err != nil {
		return protocol.Hmac{}, err
	}
	var h protocol.Hmac
	if err := cbor.Unmarshal(b, &h); err != nil {
		return protocol.Hmac{}, err
	}
	return h, nil
}

func (s *SimStore) SetXSession(ctx context.Context, suite kex.Suite, sess kex.Session) error {
	m, ok := sess.(encoding.BinaryMarshaler)
	if !ok {
		return fmt.Errorf("key exchange session cannot be marshaled")
	}
	b, err := m.MarshalBinary()
	if err != nil {
		return err
	}
	if err := s.set(ctx, "SetXSession", "to2.xsuite", []byte(suite), false); err != nil {
		return err
	}
	tok, _ := s.TokenFromContext(ctx)
	s.mu.Lock()
	if rec, ok := s.sessions[tok]; ok {
		rec.fields["to2.xsess"] = append([]byte(nil), b...)
	}
	s.mu.Unlock()
	s.j.Add(Effect{Node: s.node, Token: tok, Op: "SetXSession", Key: string(suite), Digest: digest(b)})
	return nil
}

func (s *SimStore) XSession(ctx context.Context) (kex.Suite, kex.Session, error) {
	sb, err := s.get(ctx, "XSession", "to2.xsuite")
	if err != nil {
		return "", nil, err
	}
	tok, _ := s.TokenFromContext(ctx)
	b, ok := s.SessionField(tok, "to2.xsess")
	if !ok {
		return "", nil, fdo.ErrNotFound
	}
	suite := kex.Suite(sb)
	sess := suite.New(nil, 1)
	if sess == nil {
		return "", nil, fmt.Errorf("unknown key exchange suite %q", suite)
	}
	u, ok := sess.(encoding.BinaryUnmarshaler)
	if !ok {
		return "", nil, fmt.Errorf("key exchange session cannot be unmarshaled")
	}
	if err := u.UnmarshalBinary(b); err != nil {
		return "", nil, err
	}
	return suite, sess, nil
}

func (s *SimStore) SetProveDeviceNonce(ctx context.Context, n protocol.Nonce) error {
	return s.set(ctx, "SetProveDeviceNonce", "to2.pdnonce", n[:], false)
}

func (s *SimStore) ProveDeviceNonce(ctx context.Context) (protocol.Nonce, error) {
	return s.nonce(ctx, "ProveDeviceNonce", "to2.pdnonce")
}

func (s *SimStore) SetSetupDeviceNonce(ctx context.Context, n protocol.Nonce) error {
	return s.set(ctx, "SetSetupDeviceNonce", "to2.sdnonce", n[:], false)
}

func (s *SimStore) SetupDeviceNonce(ctx context.Context) (protocol.Nonce, error) {
	return s.nonce(ctx, "SetupDeviceNonce", "to2.sdnonce")
}

func (s *SimStore) SetMTU(ctx context.Context, mtu uint16) error {
	return s.set(ctx, "SetMTU", "to2.mtu", []byte{byte(mtu >> 8), byte(mtu)}, false)
}

func (s *SimStore) MTU(ctx context.Context) (uint16, error) {
	b, err := s.get(ctx, "MTU", "to2.mtu")
	if err != nil {
		return 0, err
	}
	return uint16(b[0])<<8 | uint16(b[1]), nil
}

type devmodRec struct {
	Devmod   serviceinfo.Devmod
	Modules  []string
	Complete bool
}

func (s *SimStore) SetDevmod(ctx context.Context, d serviceinfo.Devmod, modules []string, complete bool) error {
	b, err := cbor.Marshal(devmodRec{d, modules, complete})
	if err != nil {
		return err
	}
	return s.set(ctx, "SetDevmod", "to2.devmod", b, false)
}

func (s *SimStore) Devmod(ctx context.Context) (serviceinfo.Devmod, []string, bool, error) {
	b, err := s.get(ctx, "Devmod", "to2.devmod")
	if err != nil {
		return serviceinfo.Devmod{}, nil, false, err
	}
	var r devmodRec
	if err := cbor.Unmarshal(b, &r); err != nil {
		return serviceinfo.Devmod{}, nil, false, err
	}
	return r.Devmod, r.Modules, r.Complete, nil
}

// --- persistent: vouchers ---

func (s *SimStore) AddVoucher(ctx context.Context, ov *fdo.Voucher) error {
	if err := s.enter("AddVoucher"); err != nil {
		return err
	}
	b, err := cbor.Marshal(ov)
	if err != nil {
		return err
	}
	g := ov.Header.Val.GUID
	s.mu.Lock()
	s.vouchers[g] = b
	s.mu.Unlock()
	tok, _ := s.TokenFromContext(ctx)
	s.j.Add(Effect{Node: s.node, Token: tok, Op: "AddVoucher", Key: hex.EncodeToString(g[:]), Digest: digest(b), Note: fmt.Sprintf("entries=%d", len(ov.Entries))})
	return nil
}

func (s *SimStore) Voucher(ctx context.Context, g protocol.GUID) (*fdo.Voucher, error) {
	if err := s.enter("Voucher"); err != nil {
		return nil, err
	}
	s.mu.Lock()
	b, ok := s.vouchers[g]
	s.mu.Unlock()
	if !ok {
		return nil, fdo.ErrNotFound
	}
	var ov fdo.Voucher
	if err := cbor.Unmarshal(b, &ov); err != nil {
		return nil, err
	}
	return &ov, nil
}

func (s *SimStore) ReplaceVoucher(ctx context.Context, g protocol.GUID, ov *fdo.Voucher) error {
	if err := s.enter("ReplaceVoucher"); err != nil {
		return err
	}
	b, err := cbor.Marshal(ov)
	if err != nil {
		return err
	}
	ng := ov.Header.Val.GUID
	s.mu.Lock()
	delete(s.vouchers, g)
	s.vouchers[ng] = b
	s.mu.Unlock()
	tok, _ := s.TokenFromContext(ctx)
	s.j.Add(Effect{Node: s.node, Token: tok, Op: "ReplaceVoucher", Key: hex.EncodeToString(g[:]), Digest: digest(b), Note: hex.EncodeToString(ng[:])})
	return nil
}

func (s *SimStore) RemoveVoucher(ctx context.Context, g protocol.GUID) (*fdo.Voucher, error) {
	if err := s.enter("RemoveVoucher"); err != nil {
		return nil, err
	}
	s.mu.Lock()
	b, ok := s.vouchers[g]
	delete(s.vouchers, g)
	s.mu.Unlock()
	if !ok {
		return nil, fdo.ErrNotFound
	}
	s.j.Add(Effect{Node: s.node, Op: "RemoveVoucher", Key: hex.EncodeToString(g[:])})
	var ov fdo.Voucher
	if err := cbor.Unmarshal(b, &ov); err != nil {
		return nil, err
	}
	return &ov, nil
}

// VoucherBytes returns the stored encoding of a voucher (oracle access, no yield).
func (s *SimStore) VoucherBytes(g protocol.GUID) ([]byte, bool) {
	s.mu.Lock()
	defer s.mu.Unlock()
	b, ok := s.vouchers[g]
	return append([]byte(nil), b...), ok
}

// VoucherGUIDs lists stored voucher GUIDs in stable order.
func (s *SimStore) VoucherGUIDs() []protocol.GUID {
	s.mu.Lock()
	defer s.mu.Unlock()
	var out []protocol.GUID
	for g := range s.vouchers {
		out = append(out, g)
	}
	sort.Slice(out, func(i, j int) bool { return string(out[i][:]) < string(out[j][:]) })
	return out
}

// VoucherStoreDigest summarises the whole voucher table.
func (s *SimStore) VoucherStoreDigest() string {
	h := sha256.New()
	for _, g := range s.VoucherGUIDs() {
		b, _ := s.VoucherBytes(g)
		h.Write(g[:])
		h.Write(b)
	}
	return hex.EncodeToString(h.Sum(nil)[:8])
}

// PutVoucherBytes stores raw bytes (used to plant tampered vouchers at rest).
func (s *SimStore) PutVoucherBytes(g protocol.GUID, b []byte) {
	s.mu.Lock()
	defer s.mu.Unlock()
	s.vouchers[g] = append([]byte(nil), b...)
}

// --- persistent: rendezvous blobs ---

func (s *SimStore) SetRVBlob(ctx context.Context, ov *fdo.Voucher, to1d *cose.Sign1[protocol.To1d, []byte], exp time.Time) error {
	if err := s.enter("SetRVBlob"); err != nil {
		return err
	}
	b, err := cbor.Marshal(to1d)
	if err != nil {
		return err
	}
	vb, err := cbor.Marshal(ov)
	if err != nil {
		return err
	}
	g := ov.Header.Val.GUID
	s.mu.Lock()
	s.rvblobs[g] = rvRec{to1d: b, voucher: vb, exp: exp}
	s.mu.Unlock()
	tok, _ := s.TokenFromContext(ctx)
	s.j.Add(Effect{Node: s.node, Token: tok, Op: "SetRVBlob", Key: hex.EncodeToString(g[:]), Digest: digest(b), Note: fmt.Sprintf("exp=%d", exp.Unix())})
	return nil
}

func (s *SimStore) RVBlob(ctx context.Context, g protocol.GUID) (*cose.Sign1[protocol.To1d, []byte], *fdo.Voucher, error) {
	if err := s.enter("RVBlob"); err != nil {
		return nil, nil, err
	}
	s.mu.Lock()
	rec, ok := s.rvblobs[g]
	s.mu.Unlock()
	if !ok || time.Now().After(rec.exp) {
		return nil, nil, fdo.ErrNotFound
	}
	var to1d cose.Sign1[protocol.To1d, []byte]
	if err := cbor.Unmarshal(rec.to1d, &to1d); err != nil {
		return nil, nil, err
	}
	var ov fdo.Voucher
	if err := cbor.Unmarshal(rec.voucher, &ov); err != nil {
		return nil, nil, err
	}
	return &to1d, &ov, nil
}

// RVBlobRaw returns the stored record for oracles (no expiry filter).
func (s *SimStore) RVBlobRaw(g protocol.GUID) (to1d []byte, exp time.Time, ok bool) {
	s.mu.Lock()
	defer s.mu.Unlock()
	rec, ok := s.rvblobs[g]
	return rec.to1d, rec.exp, ok
}

// --- keys ---

func (s *SimStore) OwnerKey(ctx context.Context, t protocol.KeyType, bits int) (crypto.Signer, []*x509.Certificate, error) {
	if err := s.enter("OwnerKey"); err != nil {
		return nil, nil, err
	}
	e, ok := s.owner[normKey(t, bits)]
	if !ok {
		return nil, nil, fdo.ErrNotFound
	}
	if s.OwnerKeyNoChain {
		// a key store provisioned with bare keys (as the example server does)
		return e.Key, nil, nil
	}
	return e.Key, e.Chain, nil
}

func (s *SimStore) ManufacturerKey(ctx context.Context, t protocol.KeyType, bits int) (crypto.Signer, []*x509.Certificate, error) {
	if err := s.enter("ManufacturerKey"); err != nil {
		return nil, nil, err
	}
	e, ok := s.mfg[normKey(t, bits)]
	if !ok {
		return nil, nil, fdo.ErrNotFound
	}
	return e.Key, e.Chain, nil
}

var _ Backend = (*SimStore)(nil)
