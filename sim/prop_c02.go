package fdosim

import (
	"context"
	"crypto/rand"
	"fmt"
	"strings"
	"testing"
	"testing/synctest"

	"github.com/fido-device-onboard/go-fdo/cbor"
	"github.com/fido-device-onboard/go-fdo/cose"
	"github.com/fido-device-onboard/go-fdo/kex"
	"github.com/fido-device-onboard/go-fdo/protocol"
	"github.com/fido-device-onboard/go-fdo/serviceinfo"
)

// C02 — the owner serves only a peer that proved the device key for this
// session. Real TO2Server behind the HTTP handler; the adversary is a client
// without the device key (and, to isolate each claim check, a tester that
// signs deliberately wrong tokens with the genuine device key).

type C02Plan struct {
	Seed   uint64 `json:"seed"`
	Key    string `json:"key"`
	Enc    uint8  `json:"enc"`
	Chain  int    `json:"chain"`
	Kex    string `json:"kex"`
	Cipher string `json:"cipher"`
	Attack string `json:"attack"`
	Arg    string `json:"arg,omitempty"`
	Msg    int    `json:"msg,omitempty"`
	Ord    int    `json:"ord,omitempty"`
}

type c02 struct{ plans map[string][]C02Plan }

func init() { Register(&c02{plans: map[string][]C02Plan{}}) }

func (p *c02) ID() string    { return "C02" }
func (p *c02) Level() string { return "exploration" }
func (p *c02) NewPlan() any  { return &C02Plan{} }
func (p *c02) Rule() string {
	return "plans = adversary client scenarios against the real TO2 responder (tokens signed by foreign keys, genuine tokens replayed from other sessions/devices/protocols, claim-by-claim wrong tokens signed with the genuine key, GUID/UEID swap between two vouchers of one device key, messages 66-70 before/after ProveDevice in plaintext, under self-chosen keys or as garbage, owner without the voucher's key) x key type x encoding x chain length x sampled kex/cipher suites, plus a complete structure-aware mutation sweep of the honest ProveDevice request for the sweep families; non-trivial = an adversary request reached the server; distinct = distinct (fault, outcome, log hash)"
}
func (p *c02) Exhaustive(string) bool { return false }
func (p *c02) Components() map[string][]string {
	return map[string][]string{
		"real": {"fdo.TO2Server, TO1Server, TO0Server, DIServer", "http.Handler", "honest fdo.TO2/TO1 device role", "kex", "cose", "cbor"},
		"stub": {"adversary client (RawClient over simnet)", "state backend (simstore)", "clock", "crypto randomness", "ping owner/device modules"},
	}
}
func (p *c02) Assumptions() []string {
	return []string{
		"forbidden observables for an unauthenticated peer: response types 65/67/69/71 and journal effects module.*, ReplaceVoucher, SetReplacementHmac; 61/63 are allowed by the statement",
		"leaf sweep of ProveDevice: MUST_REJECT only inside protected value, payload and signature of the EAT COSE_Sign1; unprotected header (SetupDevice nonce) is unbound",
	}
}

func defaultKex(cfg KeyCfg) kex.Suite {
	switch cfg.Fam() {
	case P256:
		return kex.ECDH256Suite
	case P384:
		return kex.ECDH384Suite
	case RSA2048:
		return kex.DHKEXid14Suite
	}
	return kex.ASYMKEX3072Suite
}

var c02Scenarios = []C02Plan{
	{Attack: "honest"},
	{Attack: "eat-correct"},
	{Attack: "eat-foreign-key", Arg: "att1"}, {Attack: "eat-foreign-key", Arg: "dev2"}, {Attack: "eat-foreign-key", Arg: "owner1"}, {Attack: "eat-foreign-key", Arg: "mfg"},
	{Attack: "eat-claim", Arg: "wrong-nonce"}, {Attack: "eat-claim", Arg: "no-nonce"}, {Attack: "eat-claim", Arg: "nonce-text"},
	{Attack: "eat-claim", Arg: "wrong-ueid"}, {Attack: "eat-claim", Arg: "no-ueid"}, {Attack: "eat-claim", Arg: "ueid-short"}, {Attack: "eat-claim", Arg: "ueid-type0"},
	{Attack: "eat-claim", Arg: "no-fdo"}, {Attack: "eat-claim", Arg: "fdo-int"}, {Attack: "eat-claim", Arg: "fdo-two"}, {Attack: "eat-claim", Arg: "fdo-empty-param"}, {Attack: "eat-claim", Arg: "no-setup-nonce"},
	// a forged ProveDevice carrying the adversary's own, well-formed key-exchange
	// parameter is rejected; the adversary then continues the session under the
	// keys that parameter yields, with and without the state backend failing to
	// invalidate the token after the rejection
	{Attack: "forged-then-tunnel", Arg: "invalidate-ok"}, {Attack: "forged-then-tunnel", Arg: "invalidate-fails"},
	{Attack: "replay-other-session"}, {Attack: "replay-other-device"}, {Attack: "ueid-swap"}, {Attack: "to1-token"},
	{Attack: "skip", Msg: 66, Arg: "plain"}, {Attack: "skip", Msg: 68, Arg: "plain"}, {Attack: "skip", Msg: 70, Arg: "plain"},
	{Attack: "skip", Msg: 66, Arg: "selfkey"}, {Attack: "skip", Msg: 68, Arg: "selfkey"}, {Attack: "skip", Msg: 70, Arg: "selfkey"},
	{Attack: "skip", Msg: 68, Arg: "garbage"}, {Attack: "skip", Msg: 70, Arg: "garbage"},
	// guessable keys: what a session might hold before the key exchange completed
	{Attack: "skip", Msg: 66, Arg: "zerokey"}, {Attack: "skip", Msg: 68, Arg: "zerokey"}, {Attack: "skip", Msg: 70, Arg: "zerokey"},
	{Attack: "skip", Msg: 66, Arg: "onekey"}, {Attack: "skip", Msg: 68, Arg: "onekey"},
	{Attack: "hijack", Msg: 66, Arg: "plain"}, {Attack: "hijack", Msg: 68, Arg: "plain"}, {Attack: "hijack", Msg: 70, Arg: "plain"},
	{Attack: "hijack", Msg: 68, Arg: "selfkey"}, {Attack: "hijack", Msg: 70, Arg: "selfkey"}, {Attack: "hijack", Msg: 70, Arg: "garbage"},
	{Attack: "notoken", Msg: 62}, {Attack: "notoken", Msg: 64}, {Attack: "notoken", Msg: 66}, {Attack: "notoken", Msg: 68}, {Attack: "notoken", Msg: 70},
	{Attack: "wrong-owner-key"},
}

func (p *c02) Prepare(t *testing.T, tier string, seed uint64) {
	if _, ok := p.plans[tier]; ok {
		return
	}
	var plans []C02Plan
	i := 0
	// sweep of the honest ProveDevice request
	for fi, f := range c01SweepFams {
		cfg := keyCfgByName(f.Key, f.Enc)
		base := C02Plan{Seed: seed*6121 + uint64(fi)*977 + 3, Key: f.Key, Enc: f.Enc, Chain: 1, Kex: string(defaultKex(cfg)), Cipher: "A128GCM", Attack: "honest"}
		var body []byte
		_, restore := SeedCrypto(base.Seed)
		synctest.Test(t, func(t *testing.T) {
			c02Run(&Env{T: t, Out: &Outcome{Faults: map[string]int{}, Probes: map[string]int{}}}, &base, &body)
		})
		restore()
		for m := range AllMutations(body) {
			pl := base
			pl.Attack, pl.Msg, pl.Ord = "leaf", 64, m
			plans = append(plans, pl)
		}
	}
	ciphers := []string{"A128GCM", "A256GCM", "COSEAES128CTR", "COSEAES256CBC", "A192GCM", "COSEAES128CBC", "COSEAES256CTR"}
	for _, k := range KeyTypes {
		for _, e := range KeyEncs {
			if k.IsRSA() && e == protocol.CoseKeyEnc {
				continue
			}
			cfg := k
			cfg.Enc = e
			for chain := 1; chain <= 2; chain++ {
				if tier != "thorough" && chain == 2 && e != protocol.X509KeyEnc {
					continue
				}
				for _, sc := range c02Scenarios {
					pl := sc
					pl.Key, pl.Enc, pl.Chain = k.Name, uint8(e), chain
					pl.Kex = string(defaultKex(cfg))
					if k.IsRSA() {
						pl.Kex = []string{"DHKEXid14", "DHKEXid15", "ASYMKEX2048", "ASYMKEX3072", "ECDH256", "ECDH384"}[i%6]
					}
					pl.Cipher = ciphers[i%len(ciphers)]
					pl.Seed = seed*1_000_003 + uint64(i)*17 + 1
					i++
					plans = append(plans, pl)
				}
			}
		}
	}
	p.plans[tier] = plans
}

func (p *c02) NumPlans(tier string) int { return len(p.plans[tier]) }
func (p *c02) Plan(tier string, seed uint64, i int) any {
	pl := p.plans[tier][i]
	return &pl
}
func (p *c02) Shrink(plan any) []any {
	pl := plan.(*C02Plan)
	if pl.Chain > 1 {
		c := *pl
		c.Chain = 1
		return []any{&c}
	}
	return nil
}
func (p *c02) Exec(env *Env, plan any) { c02Run(env, plan.(*C02Plan), nil) }

func c02Run(env *Env, pl *C02Plan, collect64 *[]byte) {
	o := env.Out
	cfg := keyCfgByName(pl.Key, pl.Enc)
	spec := CipherSpecByName(pl.Cipher)
	kx := kex.Suite(pl.Kex)
	ctx := context.Background()
	s := NewStd(nil, cfg)
	rec := &ModRecorder{}
	o1 := s.Nodes["owner1"]
	o1.Reuse = true
	o1.Mods = &ModSM{Factory: PingFactory(o1, rec, [][]byte{[]byte("secret-owner-configuration-blob")})}
	devMods := func() map[string]serviceinfo.DeviceModule {
		return map[string]serviceinfo.DeviceModule{"ping": &PongDevice{Mod: "ping", Rec: rec}}
	}
	opts := func() TO2Opts {
		return TO2Opts{Kex: kx, Cipher: spec.ID, AllowReuse: true, Modules: devMods()}
	}
	setupFail := func(step string, err error) {
		o.Class = "setup-failed:" + step
		o.Violate("C02", "honest-setup", step+"|"+pl.Key, "honest preparation step %s failed for %+v: %v", step, *pl, err)
	}
	defer func() {
		env.Logf("plan=%+v class=%s", *pl, o.Class)
		for _, ev := range s.Net.Log {
			env.Logf("%d %s>%s %s %d/%d %s %v", ev.Seq, ev.From, ev.To, ev.Phase, ev.MsgType, ev.RespType, ev.BodyHash, ev.Faults)
		}
		for _, pr := range s.Net.Panics {
			o.Probe("panic:" + pr.Frame)
		}
		for k, v := range s.Net.Faults {
			o.Faults[k] += v
		}
	}()

	chain := c01Chains[pl.Chain]
	d1, _, err := s.Provision(ctx, "dev1", "dev1", "mfg", chain...)
	if err != nil {
		setupFail("provision", err)
		return
	}
	d2, _, err := s.Provision(ctx, "dev2", "dev2", "mfg", "owner1")
	if err != nil {
		setupFail("provision2", err)
		return
	}

	// adversary bookkeeping
	var advResp []int // response types to adversary-originated requests
	adv := &RawClient{Net: s.Net, From: "adversary", To: "owner1"}
	send := func(c *RawClient, msg uint8, body []byte) (int, []byte) {
		rt, b, err := c.Send(msg, body)
		if err != nil {
			rt = -1
		}
		advResp = append(advResp, rt)
		return rt, b
	}
	openSession := func(c *RawClient, guid protocol.GUID) (*ProveOVHdrView, error) {
		hb, _ := HelloDeviceBody(cfg, guid, kx, spec.ID)
		rt, b, err := c.Send(60, hb)
		if err != nil || rt != 61 {
			return nil, fmt.Errorf("HelloDevice answered %d (%v)", rt, err)
		}
		v, err := ParseProveOVHdr(b)
		if err != nil {
			return nil, err
		}
		for i := 0; i < v.NumEntries; i++ {
			rb, _ := cbor.Marshal(struct{ N int }{i})
			if rt, _, _ := c.Send(62, rb); rt != 63 {
				return nil, fmt.Errorf("GetOVNextEntry %d answered %d", i, rt)
			}
		}
		return v, nil
	}
	ueid := func(g protocol.GUID) []byte { return append([]byte{1}, g[:]...) }
	journal0 := 0
	mark := func() { journal0 = s.Journal.Len() }
	mark()

	// record honest traffic where a scenario needs it
	var rec64dev1, rec64dev2 []byte
	s.Net.AddHook(func(ev *NetEvent) {
		if ev.Phase == "req" && ev.MsgType == 64 && len(ev.Faults) == 0 {
			switch ev.From {
			case "dev1":
				rec64dev1 = ev.OrigBody
				if collect64 != nil && *collect64 == nil {
					*collect64 = append([]byte(nil), ev.Body...)
				}
			case "dev2":
				rec64dev2 = ev.OrigBody
			}
		}
	})

	mustReject := true
	expectAccept := false
	tamperedHonest := false

	switch pl.Attack {
	case "honest":
		mustReject = false
		if _, err := s.TO2(ctx, d1, "owner1", nil, opts()); err != nil {
			o.Violate("C02", "honest-run-must-succeed", pl.Key+"|"+pl.Kex, "honest TO2 failed for %+v: %v", *pl, err)
		}
		if rec.Count("HandleInfo") == 0 {
			o.Violate("C02", "honest-run-must-succeed", "modules", "owner module never ran in the honest run")
		}
		o.Class = "honest-ok"
		return

	case "leaf":
		var mut Mutation
		var orig, mutated []byte
		s.Net.AddHook(func(ev *NetEvent) {
			if ev.Phase == "req" && ev.MsgType == 64 && ev.From == "dev1" && !tamperedHonest {
				muts := AllMutations(ev.Body)
				mut = muts[pl.Ord%len(muts)]
				orig, mutated = ev.Body, mut.ApplyAny()
				ev.Body = mutated
				ev.Fault("leaf:64")
				tamperedHonest = true
				mark()
			}
		})
		_, err := s.TO2(ctx, d1, "owner1", nil, opts())
		bound := mut.Semantic && string(orig) != string(mutated) && !strings.HasPrefix(mut.Kind, "raw:") && signRegion(mut.Path, "") == "bound"
		got65 := false
		for _, ev := range s.Net.Log {
			if ev.Phase == "resp" && ev.To == "dev1" && ev.RespType == 65 {
				got65 = true
			}
		}
		o.Nontrivial = true
		o.Sample = map[string]any{"mutation": mut.String(), "must_reject": bound, "got65": got65, "to2_err": fmt.Sprint(err)}
		if bound && (got65 || c02Effects(s, journal0) != "") {
			var back cose.Sign1Tag[cbor.RawBytes, []byte]
			if cbor.Unmarshal(mutated, &back) == nil {
				if nb, _ := cbor.Marshal(&back); string(nb) == string(orig) {
					o.Class = "equivalent-encoding-accepted"
					o.Probe("accepted-noncanonical-but-equal-content")
					return
				}
			}
			o.Class = "ACCEPTED-FORGED-TOKEN"
			o.Violate("C02", "altered-token-accepted", fmt.Sprintf("leaf|%s|%s", regionKey(mut.Path), mut.Kind), "owner accepted ProveDevice altered by %s (65=%v effects=%s)", mut, got65, c02Effects(s, journal0))
			return
		}
		if bound {
			o.Class = "rejected"
		} else if got65 {
			o.Class = "either-accepted"
		} else {
			o.Class = "either-rejected"
		}
		return

	case "eat-correct", "eat-foreign-key", "eat-claim":
		v, err := openSession(adv, d1.Cred.GUID)
		if err != nil {
			setupFail("open-session", err)
			return
		}
		xB, _, err := DeviceKexParam(kx, spec.ID, v.KexA, &v.OwnerPubKey)
		if err != nil {
			setupFail("kex-param", err)
			return
		}
		sn := randNonce()
		es := EATSpec{Nonce: v.ProveNonce[:], UEID: ueid(d1.Cred.GUID), FdoClaim: []any{xB}, SetupNonce: &sn}
		signer := d1.Key
		switch pl.Attack {
		case "eat-correct":
			mustReject, expectAccept = false, true
		case "eat-foreign-key":
			signer = s.Keys.Get(pl.Arg, cfg.Fam())
		case "eat-claim":
			switch pl.Arg {
			case "wrong-nonce":
				n := randNonce()
				es.Nonce = n[:]
			case "no-nonce":
				es.Nonce = nil
			case "nonce-text":
				es.Nonce = nil
				es.UEID = ueid(d1.Cred.GUID)
			case "wrong-ueid":
				es.UEID = ueid(d2.Cred.GUID)
			case "no-ueid":
				es.UEID = nil
			case "ueid-short":
				es.UEID = ueid(d1.Cred.GUID)[:16]
			case "ueid-type0":
				es.UEID = append([]byte{0}, d1.Cred.GUID[:]...)
			case "no-fdo":
				es.FdoClaim = nil
			case "fdo-int":
				es.FdoClaim = []any{7}
			case "fdo-two":
				es.FdoClaim = []any{xB, xB}
			case "fdo-empty-param":
				es.FdoClaim = []any{[]byte{}}
			case "no-setup-nonce":
				es.SetupNonce = nil
			}
		}
		body, err := BuildEAT(es, signer, cfg.PSS())
		if err != nil {
			setupFail("build-eat", err)
			return
		}
		if pl.Arg == "nonce-text" {
			// claim 10 present but as a text string
			s1 := cose.Sign1[map[int64]any, []byte]{Payload: cbor.NewByteWrap(map[int64]any{10: string(v.ProveNonce[:]), 256: ueid(d1.Cred.GUID), -257: []any{xB}})}
			s1.Header.Unprotected = map[cose.Label]any{{Int64: -259}: sn}
			_ = s1.Sign(signer.Key, nil, nil, SignOpts(signer, cfg.PSS()))
			body, _ = cbor.Marshal(s1.Tag())
		}
		mark()
		send(adv, 64, body)

	case "forged-then-tunnel":
		v, err := openSession(adv, d1.Cred.GUID)
		if err != nil {
			setupFail("open-session", err)
			return
		}
		xB, sess, err := DeviceKexParam(kx, spec.ID, v.KexA, &v.OwnerPubKey)
		if err != nil {
			setupFail("kex-param", err)
			return
		}
		sn := randNonce()
		body, err := BuildEAT(EATSpec{Nonce: v.ProveNonce[:], UEID: ueid(d1.Cred.GUID), FdoClaim: []any{xB}, SetupNonce: &sn}, s.Keys.Get("att1", cfg.Fam()), cfg.PSS())
		if err != nil {
			setupFail("build-eat", err)
			return
		}
		mark()
		if on := s.Nodes["owner1"]; pl.Arg == "invalidate-fails" && on.Sim != nil {
			on.Sim.FailNext["InvalidateToken"] = 8
			o.Fault("store:InvalidateToken-fails")
		}
		send(adv, 64, body)
		for _, m := range []int{66, 68, 68} {
			enc, eerr := sess.Encrypt(rand.Reader, cbor.RawBytes(c02LateBody(m, "plain", spec)))
			if eerr != nil {
				setupFail("encrypt-own-keys", eerr)
				return
			}
			eb, _ := cbor.Marshal(enc)
			send(adv, uint8(m), eb)
		}
		if on := s.Nodes["owner1"]; on.Sim != nil {
			on.Sim.FailNext["InvalidateToken"] = 0
		}

	case "replay-other-session", "replay-other-device":
		dv := d1
		if pl.Attack == "replay-other-device" {
			dv = d2
		}
		if _, err := s.TO2(ctx, dv, "owner1", nil, opts()); err != nil {
			setupFail("recorded-session", err)
			return
		}
		recd := rec64dev1
		if dv == d2 {
			recd = rec64dev2
		}
		if _, err := openSession(adv, d1.Cred.GUID); err != nil {
			setupFail("open-session", err)
			return
		}
		mark()
		send(adv, 64, recd)
		adv.Fault("substitute")

	case "ueid-swap":
		// two vouchers G1, G2 for one device key; the device's G1 token (carrying
		// the nonce of the adversary's G2 session) is submitted in the G2 session
		d1b := s.NewDevice("dev1b", "dev1", cfg)
		if err := s.DI(ctx, d1b, "mfg"); err != nil {
			setupFail("second-DI", err)
			return
		}
		if _, err := s.ExtendTo(ctx, "mfg", d1b.Cred.GUID, cfg, "mfg", "owner1", "owner1"); err != nil {
			setupFail("second-extend", err)
			return
		}
		v, err := openSession(adv, d1b.Cred.GUID)
		if err != nil {
			setupFail("open-session", err)
			return
		}
		var captured []byte
		s.Net.AddHook(func(ev *NetEvent) {
			if ev.Phase == "resp" && ev.To == "dev1" && ev.RespType == 61 {
				if n, err := ParseCBOR(ev.Body); err == nil {
					if nn := n.Kids[0].Kids[1].MapGet(256); nn != nil {
						nn.Bytes = v.ProveNonce[:]
						ev.Body = n.Encode(nil)
						ev.Fault("leaf")
					}
				}
			}
			if ev.Phase == "req" && ev.From == "dev1" && ev.MsgType == 64 {
				captured = ev.Body
				ev.Drop = true
				ev.Fault("drop_req")
			}
		})
		_, _ = s.TO2(ctx, d1, "owner1", nil, opts())
		if captured == nil {
			setupFail("capture-token", fmt.Errorf("device did not send ProveDevice"))
			return
		}
		mark()
		send(adv, 64, captured)

	case "to1-token":
		// the device's TO1 proof, made over the adversary's TO2 session nonce
		if _, err := s.TO0(ctx, "owner1", "rv", d1.Cred.GUID, 3600); err != nil {
			setupFail("TO0", err)
			return
		}
		v, err := openSession(adv, d1.Cred.GUID)
		if err != nil {
			setupFail("open-session", err)
			return
		}
		var captured []byte
		s.Net.AddHook(func(ev *NetEvent) {
			if ev.Phase == "resp" && ev.To == "dev1" && ev.RespType == 31 {
				if n, err := ParseCBOR(ev.Body); err == nil && len(n.Kids) > 0 {
					n.Kids[0].Bytes = v.ProveNonce[:]
					ev.Body = n.Encode(nil)
					ev.Fault("leaf")
				}
			}
			if ev.Phase == "req" && ev.From == "dev1" && ev.MsgType == 32 {
				captured = ev.Body
			}
		})
		_, _ = s.TO1(ctx, d1, "rv")
		if captured == nil {
			setupFail("capture-token", fmt.Errorf("device did not send ProveToRV"))
			return
		}
		mark()
		send(adv, 64, captured)

	case "skip", "notoken":
		if pl.Attack == "skip" {
			if _, err := openSession(adv, d1.Cred.GUID); err != nil {
				setupFail("open-session", err)
				return
			}
		}
		mark()
		send(adv, uint8(pl.Msg), c02LateBody(pl.Msg, pl.Arg, spec))

	case "hijack":
		// an on-path peer without keys injects a later message into a session
		// that the genuine device has authenticated
		done := false
		s.Net.AddHook(func(ev *NetEvent) {
			if ev.Phase == "req" && ev.From == "dev1" && ev.MsgType == 66 && !done {
				done = true
				mark()
				c := &RawClient{Net: s.Net, From: "adversary", To: "owner1", Token: ev.Token}
				send(c, uint8(pl.Msg), c02LateBody(pl.Msg, pl.Arg, spec))
			}
		})
		_, _ = s.TO2(ctx, d1, "owner1", nil, opts())
		if !done {
			setupFail("hijack-point", fmt.Errorf("device never reached DeviceServiceInfoReady"))
			return
		}

	case "wrong-owner-key":
		o1.Sim.ClearOwnerKeys()
		s.provision(func(t protocol.KeyType, bits int, e *KeyEntry) { o1.Sim.AddOwnerKey(t, bits, e) }, "owner3")
		mark()
		_, err := s.TO2(ctx, d1, "owner1", nil, opts())
		got61 := false
		for _, ev := range s.Net.Log {
			if ev.Phase == "resp" && ev.RespType == 61 {
				got61 = true
			}
		}
		o.Nontrivial = true
		o.Fault("misprovisioned-owner-key")
		if err == nil || got61 {
			o.Class = "SERVED-WITH-WRONG-KEY"
			o.Violate("C02", "owner-key-must-match-voucher", pl.Key, "owner without the voucher's key answered ProveOVHdr (err=%v)", err)
			return
		}
		o.Class = "rejected"
		return

	default:
		setupFail("unknown-attack", fmt.Errorf("%q", pl.Attack))
		return
	}

	o.Nontrivial = true
	eff := c02Effects(s, journal0)
	forbidden := false
	for _, rt := range advResp {
		if rt == 65 || rt == 67 || rt == 69 || rt == 71 {
			forbidden = true
		}
	}
	o.Sample = map[string]any{"attack": pl.Attack + ":" + pl.Arg, "adversary_responses": advResp, "effects": eff}
	switch {
	case expectAccept:
		if len(advResp) == 0 || advResp[len(advResp)-1] != 65 {
			o.Violate("C02", "correct-token-must-be-accepted", pl.Key+"|"+pl.Kex, "a correctly built token signed with the device key was answered %v (harness builder or server wrong)", advResp)
		}
		o.Class = "accepted-correct"
	case mustReject && (forbidden || eff != ""):
		o.Class = "SERVED-UNAUTHENTICATED-PEER"
		o.Violate("C02", "unauthenticated-peer-served", fmt.Sprintf("%s|%s|%d", pl.Attack, pl.Arg, pl.Msg), "adversary got responses %v, effects %q (plan %+v)", advResp, eff, *pl)
	default:
		o.Class = "rejected"
		for _, rt := range advResp {
			if rt != 255 && rt != 61 && rt != 63 {
				o.Probe(fmt.Sprintf("non-fdo-error-answer:%d", rt))
			}
		}
	}
}

// Fault lets scenario code count a fault kind on the adversary client.
func (c *RawClient) Fault(kind string) {
	c.Net.mu.Lock()
	c.Net.Faults[kind]++
	c.Net.mu.Unlock()
}

// c02Effects lists forbidden effects journalled since index from.
func c02Effects(s *Std, from int) string {
	var out []string
	for _, e := range s.Journal.Since(from) {
		if strings.HasPrefix(e.Op, "module.") || e.Op == "ReplaceVoucher" || e.Op == "SetReplacementHmac" {
			out = append(out, e.Op)
		}
	}
	return strings.Join(out, ",")
}

// c02LateBody builds a body for a message 66..70 as sent by a peer that has
// no session keys.
func c02LateBody(msg int, enc string, spec CipherSpec) []byte {
	var plain []byte
	mtu := uint16(1300)
	switch msg {
	case 66:
		plain, _ = cbor.Marshal(struct {
			Hmac *protocol.Hmac
			MTU  *uint16
		}{&protocol.Hmac{Algorithm: protocol.HmacSha256Hash, Value: make([]byte, 32)}, &mtu})
	case 68:
		plain, _ = cbor.Marshal(struct {
			More bool
			SI   []*serviceinfo.KV
		}{false, []*serviceinfo.KV{{Key: "devmod:active", Val: []byte{0xf5}}}})
	case 70:
		plain, _ = cbor.Marshal(struct{ N protocol.Nonce }{})
	}
	switch enc {
	case "plain":
		return plain
	case "garbage":
		b := make([]byte, 48)
		_, _ = rand.Read(b)
		return b
	default: // selfkey: a well-formed COSE object under keys the adversary chose
		sek := make([]byte, spec.KeyLen)
		svk := make([]byte, spec.MacLen)
		switch enc {
		case "zerokey":
		case "onekey":
			for i := range sek {
				sek[i] = 0xff
			}
			for i := range svk {
				svk[i] = 0xff
			}
		default:
			_, _ = rand.Read(sek)
			_, _ = rand.Read(svk)
		}
		sc := kex.SessionCrypter{ID: spec.ID, Cipher: spec.ID.Suite(), SEK: sek, SVK: svk}
		v, err := sc.Encrypt(rand.Reader, cbor.RawBytes(plain))
		if err != nil {
			return plain
		}
		b, _ := cbor.Marshal(v)
		return b
	}
}
