package fdosim

import (
	"crypto/sha256"
	"encoding/hex"
	"encoding/json"
	"fmt"
	"os"
	"path/filepath"
	"reflect"
	"runtime"
	"sort"
	"strconv"
	"strings"
	"testing"
	"testing/synctest"
	"time"
)

// Violation is one oracle failure.
type Violation struct {
	Property string `json:"property"`
	Oracle   string `json:"oracle"`
	// Key identifies the finding for known-findings matching:
	// oracle | call site or top library frame | input class.
	Key    string `json:"key"`
	Detail string `json:"detail"`
}

// Outcome is what one simulated run reports.
type Outcome struct {
	Violations []Violation    `json:"violations,omitempty"`
	Class      string         `json:"class"`      // outcome class
	Faults     map[string]int `json:"faults"`     // fault kinds that actually fired
	Probes     map[string]int `json:"probes"`     // rare conditions reached
	Nontrivial bool           `json:"nontrivial"` // >=1 fault fired or >=2 tasks runnable
	SimTimeS   float64        `json:"sim_time_s"`
	Steps      int            `json:"steps"`
	MultiSteps int            `json:"multi_steps"`
	Sched      string         `json:"sched,omitempty"`
	LogHash    string         `json:"log_hash"` // hash of the full event log (determinism)
	Sample     any            `json:"sample,omitempty"`
	RealMS     float64        `json:"real_ms"`
	Deadlock   bool           `json:"deadlock,omitempty"`
	// Unstable: the run reached a point where the Go runtime itself chooses at
	// random (a select with several ready cases after a cancellation); its event
	// log is not expected to repeat, only its verdict is.
	Unstable bool `json:"unstable,omitempty"`
}

func (o *Outcome) Violate(prop, oracle, key, format string, a ...any) {
	o.Violations = append(o.Violations, Violation{Property: prop, Oracle: oracle, Key: oracle + "|" + key, Detail: fmt.Sprintf(format, a...)})
}

func (o *Outcome) Fault(kind string) {
	if o.Faults == nil {
		o.Faults = map[string]int{}
	}
	o.Faults[kind]++
	o.Nontrivial = true
}

func (o *Outcome) Probe(name string) {
	if o.Probes == nil {
		o.Probes = map[string]int{}
	}
	o.Probes[name]++
}

// Env is what a property's Exec gets: it runs inside a synctest bubble with
// seeded crypto.
type Env struct {
	T     *testing.T
	Start time.Time
	Out   *Outcome
	log   []string
}

// Logf appends to the run's event log (hashed for the determinism check).
// It never draws randomness nor reads a clock.
func (e *Env) Logf(format string, a ...any) {
	e.log = append(e.log, fmt.Sprintf(format, a...))
	if dbgLog {
		fmt.Println(e.log[len(e.log)-1])
	}
}

// dbgLog echoes the event log while a replay is being debugged.
var dbgLog = false

// Prop is one property check.
type Prop interface {
	ID() string
	Level() string // exploration | fault_enumeration
	// Prepare is called once per worker process before NumPlans/Plan; sweeps
	// use it to run an honest baseline and count the mutation space.
	Prepare(t *testing.T, tier string, seed uint64)
	// NumPlans is how many plans the tier explores per seed (enumerated sweep
	// plus random sample).
	NumPlans(tier string) int
	// Plan returns the i-th plan; deterministic in (tier, seed, i). The result
	// must be a pointer to a JSON-serialisable struct with a uint64 field Seed.
	Plan(tier string, seed uint64, i int) any
	NewPlan() any
	Exec(env *Env, plan any)
	// Shrink proposes simpler plans (may be nil).
	Shrink(plan any) []any
	// Rule describes generation and the non-triviality rule for evidence.
	Rule() string
	Exhaustive(tier string) bool
	Components() map[string][]string
	Assumptions() []string
}

var props = map[string]Prop{}

func Register(p Prop) { props[p.ID()] = p }

func planSeed(plan any) uint64 {
	v := reflect.ValueOf(plan)
	for v.Kind() == reflect.Pointer {
		v = v.Elem()
	}
	f := v.FieldByName("Seed")
	if !f.IsValid() {
		return 1
	}
	return f.Uint()
}

// RunPlan executes one plan in a fresh bubble with crypto seeded from the
// plan. A panic escaping the property code or a synctest deadlock panic is
// turned into an outcome (never into a test failure).
func RunPlan(t *testing.T, p Prop, plan any) (out *Outcome) {
	out = &Outcome{Faults: map[string]int{}, Probes: map[string]int{}}
	env := &Env{T: t, Out: out}
	_, restore := SeedCrypto(planSeed(plan))
	defer restore()
	t0 := time.Now()
	races0 := raceErrors()
	completed := false
	body := func() {
		defer func() {
			if r := recover(); r != nil {
				msg := fmt.Sprint(r)
				if strings.Contains(msg, "deadlock") {
					out.Deadlock = true
					env.Logf("bubble deadlock: %s", msg)
					return
				}
				panic(r)
			}
		}()
		synctest.Test(t, func(t *testing.T) {
			env.T = t
			env.Start = time.Now()
			p.Exec(env, plan)
			completed = true
			out.SimTimeS = time.Since(env.Start).Seconds()
		})
	}
	if RaceBuild {
		// a bubble in which the detector reported a race fails its *testing.T
		// and synctest.Test then ends the calling goroutine (FailNow); run it on
		// a goroutine of its own so that the worker survives and records which
		// plan raced
		done := make(chan struct{})
		go func() {
			defer close(done)
			body()
		}()
		<-done
	} else {
		body()
	}
	out.RealMS = float64(time.Since(t0).Microseconds()) / 1000
	if out.Deadlock && !completed && len(out.Violations) == 0 {
		// every goroutine of the bubble was blocked for good before the
		// property's own verdict was reached
		if d, ok := p.(interface{ DeadlockIsViolation() bool }); ok && d.DeadlockIsViolation() {
			out.Class = "DEADLOCK"
			out.Violate(p.ID(), "deadlock", "all-goroutines-blocked", "all goroutines of the simulated system are blocked for good")
		}
	}
	if n := raceErrors() - races0; n > 0 {
		// the reports themselves are in the GORACE log of this process; the
		// driver classifies them (library access pair or harness defect)
		out.Violate(p.ID(), "race", "data-race", "the race detector made %d report(s) while this plan executed", n)
	}
	h := sha256.New()
	for _, l := range env.log {
		h.Write([]byte(l))
		h.Write([]byte{'\n'})
	}
	for _, v := range out.Violations {
		if v.Oracle == "race" {
			// the detector reports an access pair once per process: a second
			// execution of the same plan in this process stays silent
			continue
		}
		h.Write([]byte(v.Key))
	}
	h.Write([]byte(out.Class))
	out.LogHash = hex.EncodeToString(h.Sum(nil)[:8])
	if out.Unstable {
		out.LogHash = "unstable"
	}
	return out
}

// ReplayFile is the on-disk form of a (minimised) failing run.
type ReplayFile struct {
	Property  string          `json:"property"`
	Tier      string          `json:"tier"`
	Plan      json.RawMessage `json:"plan"`
	Violation Violation       `json:"violation"`
	LogHash   string          `json:"log_hash"`
	Shrunk    int             `json:"shrink_steps"`
	Note      string          `json:"note,omitempty"`
}

func hasKey(o *Outcome, key string) bool {
	for _, v := range o.Violations {
		if v.Key == key {
			return true
		}
	}
	return false
}

// Minimise greedily applies Shrink while the same violation key persists.
func Minimise(t *testing.T, p Prop, plan any, key string, maxExec int, deadline time.Time) (any, *Outcome, int) {
	best := plan
	bestOut := RunPlan(t, p, plan)
	steps, execs := 0, 0
	for progress := true; progress; {
		progress = false
		for _, cand := range p.Shrink(best) {
			if execs >= maxExec || time.Now().After(deadline) {
				return best, bestOut, steps
			}
			execs++
			o := RunPlan(t, p, cand)
			if hasKey(o, key) {
				best, bestOut, steps, progress = cand, o, steps+1, true
				break
			}
		}
	}
	return best, bestOut, steps
}

func writeReplay(p Prop, tier string, plan any, v Violation, logHash string, steps int) (string, error) {
	b, err := json.Marshal(plan)
	if err != nil {
		return "", err
	}
	rf := ReplayFile{Property: p.ID(), Tier: tier, Plan: b, Violation: v, LogHash: logHash, Shrunk: steps}
	dir := os.Getenv("VERIF_REPLAY_DIR")
	if dir == "" {
		dir = filepath.Join(VerifRoot(), "replays")
	}
	_ = os.MkdirAll(dir, 0o755)
	sum := sha256.Sum256(append(b, []byte(v.Key)...))
	name := filepath.Join(dir, fmt.Sprintf("%s-%d-%s.json", p.ID(), planSeed(plan), hex.EncodeToString(sum[:4])))
	out, _ := json.MarshalIndent(rf, "", " ")
	return name, os.WriteFile(name, out, 0o644)
}

// WorkerResult is the JSON a worker process writes when it is done.
type WorkerResult struct {
	Property    string            `json:"property"`
	Tier        string            `json:"tier"`
	Seed        uint64            `json:"seed"`
	Shard       int               `json:"shard"`
	Runs        int               `json:"runs"`
	Planned     int               `json:"planned"`
	Complete    bool              `json:"complete"` // every plan of this shard executed
	Classes     map[string]int    `json:"classes"`
	Distinct    []string          `json:"distinct"` // hashes of distinct non-trivial runs
	Faults      map[string]int    `json:"faults"`
	Probes      map[string]int    `json:"probes"`
	SimTimeS    float64           `json:"sim_time_s"`
	Steps       int               `json:"steps"`
	MultiSteps  int               `json:"multi_steps"`
	Scheds      []string          `json:"scheds"`
	Samples     []json.RawMessage `json:"samples"`
	Violations  []ViolationReport `json:"violations"`
	DetChecked  int               `json:"det_checked"`
	DetMismatch []string          `json:"det_mismatch"`
	WallS       float64           `json:"wall_s"`
	Deadlocks   int               `json:"deadlocks"`
}

type ViolationReport struct {
	Violation  Violation `json:"violation"`
	Replay     string    `json:"replay"`
	Reproduced bool      `json:"reproduced"`
}

// Worker runs the plans of one shard.
func Worker(t *testing.T, id, tier string, seed uint64, shard, nshards int, budget time.Duration) *WorkerResult {
	p := props[id]
	if p == nil {
		t.Fatalf("unknown property %q", id)
	}
	t0 := time.Now()
	deadline := t0.Add(budget)
	res := &WorkerResult{Property: id, Tier: tier, Seed: seed, Shard: shard, Classes: map[string]int{}, Faults: map[string]int{}, Probes: map[string]int{}}
	p.Prepare(t, tier, seed)
	n := p.NumPlans(tier)
	distinct := map[string]bool{}
	scheds := map[string]bool{}
	seenKeys := map[string]bool{}
	res.Complete = true
	runLimit := 40 * time.Second
	if v, err := strconv.Atoi(os.Getenv("VERIF_RUN_TIMEOUT_S")); err == nil && v > 0 {
		runLimit = time.Duration(v) * time.Second
	}
	progress := os.Getenv("VERIF_PROGRESS")
	skipPlans := map[int]bool{}
	for _, f := range strings.Split(os.Getenv("VERIF_SKIP_PLANS"), ",") {
		if v, err := strconv.Atoi(f); err == nil {
			skipPlans[v] = true
		}
	}
	var dump *os.File
	if path := os.Getenv("VERIF_DUMP_HASHES"); path != "" {
		dump, _ = os.Create(path)
		defer dump.Close()
	}
	// self-tests only need to know whether a changed tree is caught: with
	// VERIF_STOP_FILE set, the first worker that records a violation creates the
	// file and every worker stops at its next plan
	stopFile := os.Getenv("VERIF_STOP_FILE")
	for i := shard; i < n; i += nshards {
		if stopFile != "" {
			if _, err := os.Stat(stopFile); err == nil {
				break
			}
		}
		res.Planned++
		if time.Now().After(deadline) {
			res.Complete = false
			continue
		}
		if skipPlans[i] {
			// this plan killed an earlier incarnation of this worker (crash or
			// real-time limit); the driver reports it separately
			continue
		}
		plan := p.Plan(tier, seed, i)
		if progress != "" {
			// lets the driver turn a process crash (fatal error or panic in a
			// library goroutine) into a replay file for exactly this plan
			pb, _ := json.Marshal(map[string]any{"i": i, "plan": plan})
			_ = os.WriteFile(progress, pb, 0o644)
		}
		stopWatch := runWatchdog(runLimit)
		o := RunPlan(t, p, plan)
		stopWatch()
		res.Runs++
		res.Classes[o.Class]++
		if dump != nil {
			fmt.Fprintf(dump, "%d %s %s %s steps=%d\n", i, o.LogHash, o.Class, o.Sched, o.Steps)
		}
		for k, v := range o.Faults {
			res.Faults[k] += v
		}
		for k, v := range o.Probes {
			res.Probes[k] += v
		}
		res.SimTimeS += o.SimTimeS
		res.Steps += o.Steps
		res.MultiSteps += o.MultiSteps
		if o.Deadlock {
			res.Deadlocks++
		}
		if o.Sched != "" {
			scheds[o.Sched] = true
		}
		if o.Nontrivial {
			fk := make([]string, 0, len(o.Faults))
			for k, v := range o.Faults {
				fk = append(fk, fmt.Sprintf("%s=%d", k, v))
			}
			sort.Strings(fk)
			h := sha256.Sum256([]byte(strings.Join(fk, ",") + "|" + o.Sched + "|" + o.Class + "|" + o.LogHash))
			distinct[hex.EncodeToString(h[:8])] = true
		}
		if len(res.Samples) < 3 || (o.Nontrivial && len(res.Samples) < 6) {
			s := map[string]any{"plan": plan, "class": o.Class, "faults": o.Faults}
			if o.Sample != nil {
				s["observed"] = o.Sample
			}
			b, _ := json.Marshal(s)
			res.Samples = append(res.Samples, b)
		}
		// built-in determinism probe: re-execute a sample of plans
		if res.Runs%23 == 1 {
			o2 := RunPlan(t, p, p.Plan(tier, seed, i))
			res.DetChecked++
			if o2.LogHash != o.LogHash {
				res.DetMismatch = append(res.DetMismatch, fmt.Sprintf("plan %d: %s vs %s", i, o.LogHash, o2.LogHash))
			}
		}
		for _, v := range o.Violations {
			if seenKeys[v.Key] || len(res.Violations) >= 8 {
				continue
			}
			seenKeys[v.Key] = true
			if v.Oracle == "race" {
				// the detector reports each access pair once per process, so the
				// plan is neither minimised nor replayed here: the driver replays
				// the file in a fresh process
				name, err := writeReplay(p, tier, plan, v, o.LogHash, 0)
				if err != nil {
					t.Fatalf("writing replay: %v", err)
				}
				res.Violations = append(res.Violations, ViolationReport{Violation: v, Replay: name, Reproduced: true})
				continue
			}
			min, mo, steps := Minimise(t, p, plan, v.Key, 200, time.Now().Add(60*time.Second))
			mv := v
			for _, x := range mo.Violations {
				if x.Key == v.Key {
					mv = x
				}
			}
			name, err := writeReplay(p, tier, min, mv, mo.LogHash, steps)
			if err != nil {
				t.Fatalf("writing replay: %v", err)
			}
			// replay the minimised plan from its file form
			rep := Replay(t, name)
			res.Violations = append(res.Violations, ViolationReport{Violation: mv, Replay: name, Reproduced: rep})
		}
		if stopFile != "" && len(res.Violations) > 0 {
			_ = os.WriteFile(stopFile, []byte("violation recorded\n"), 0o644)
			break
		}
	}
	for k := range distinct {
		res.Distinct = append(res.Distinct, k)
	}
	sort.Strings(res.Distinct)
	for k := range scheds {
		res.Scheds = append(res.Scheds, k)
	}
	sort.Strings(res.Scheds)
	res.WallS = time.Since(t0).Seconds()
	return res
}

// Replay re-executes a replay file and reports whether the recorded violation
// reproduces with the same event-log hash.
func Replay(t *testing.T, path string) bool {
	b, err := os.ReadFile(path)
	if err != nil {
		t.Fatalf("replay: %v", err)
	}
	var rf ReplayFile
	if err := json.Unmarshal(b, &rf); err != nil {
		t.Fatalf("replay: %v", err)
	}
	p := props[rf.Property]
	if p == nil {
		t.Fatalf("replay: unknown property %q", rf.Property)
	}
	plan := p.NewPlan()
	if err := json.Unmarshal(rf.Plan, plan); err != nil {
		t.Fatalf("replay: %v", err)
	}
	p.Prepare(t, rf.Tier, 0)
	o := RunPlan(t, p, plan)
	return hasKey(o, rf.Violation.Key) && o.LogHash == rf.LogHash
}

// runWatchdog aborts the worker process with a goroutine dump when one run
// exceeds its real-time limit (the simulation itself never waits in real time).
func runWatchdog(limit time.Duration) (stop func()) {
	done := make(chan struct{})
	go func() {
		select {
		case <-done:
		case <-realAfter(limit):
			fmt.Fprintln(os.Stderr, "RUN-TIMEOUT: run exceeded", limit)
			buf := make([]byte, 1<<20)
			n := runtime.Stack(buf, true)
			os.Stderr.Write(buf[:n])
			os.Exit(3)
		}
	}()
	return func() { close(done) }
}

// realAfter is time.After on the real clock; it must be called outside a
// synctest bubble (the worker loop is).
func realAfter(d time.Duration) <-chan time.Time { return time.After(d) }

// noPrepare is embedded by properties without a preparation step.
type noPrepare struct{}

func (noPrepare) Prepare(*testing.T, string, uint64) {}
