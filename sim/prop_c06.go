package fdosim

import (
	"context"
	"encoding/hex"
	"fmt"
	"net"
	"strings"
	"testing"
	"testing/synctest"
	"time"

	fdo "github.com/fido-device-onboard/go-fdo"
	"github.com/fido-device-onboard/go-fdo/cbor"
	"github.com/fido-device-onboard/go-fdo/cose"
	"github.com/fido-device-onboard/go-fdo/protocol"
)

// C06 — the rendezvous server registers a redirect only for the voucher's
// current owner. Real TO0Server; forgers build OwnerSign requests from the
// run's own history.

type C06Plan struct {
	Seed    uint64 `json:"seed"`
	Key     string `json:"key"`
	Enc     uint8  `json:"enc"`
	Chain   int    `json:"chain"`
	Sql     bool   `json:"sql"`    // rendezvous node on the real sqlite backend
	Policy  string `json:"policy"` // nil | cap | zero | error | const
	TTL     uint32 `json:"ttl"`
	Attack  string `json:"attack"`
	KeyRole string `json:"key_role,omitempty"`
	Ord     int    `json:"ord,omitempty"`
}

type c06 struct{ plans map[string][]C06Plan }

func init() { Register(&c06{plans: map[string][]C06Plan{}}) }

func (p *c06) ID() string    { return "C06" }
func (p *c06) Level() string { return "exploration" }
func (p *c06) NewPlan() any  { return &C06Plan{} }
func (p *c06) Rule() string {
	return "plans = honest registrations under every TTL policy outcome, forged TO0.OwnerSign requests (blob signed by a stranger, the manufacturer, an earlier owner; legit owner over a voucher with zero entries / a re-signed entry / a foreign session nonce / a wrong to0d hash; genuine OwnerSign replayed in a later session; overwrite of an existing registration) and a complete structure-aware mutation sweep of the genuine OwnerSign, x key type x encoding x chain length x {simstore, sqlite} rendezvous backend; non-trivial = a forged or altered request reached the server or a TTL policy decided; distinct = distinct (fault, outcome, log hash)"
}
func (p *c06) Exhaustive(string) bool { return false }
func (p *c06) Components() map[string][]string {
	return map[string][]string{
		"real": {"fdo.TO0Server", "fdo.TO0Client (honest registrations)", "http.Handler/Transport", "voucher entry verification", "cose", "cbor", "sqlite.DB (sql plans)"},
		"stub": {"forger client (RawClient)", "simstore (non-sql plans)", "clock (synctest)", "crypto randomness", "TTL policy callback"},
	}
}
func (p *c06) Assumptions() []string {
	return []string{
		"ground truth of the current owner is the history of extensions performed by the harness",
		"legit-owner-signed malformed requests are built with the genuine owner key to isolate one server check each",
	}
}

type hTo0d struct {
	Voucher      fdo.Voucher
	WaitSeconds  uint32
	NonceTO0Sign protocol.Nonce
}

type hOwnerSign struct {
	To0d cbor.Bstr[hTo0d]
	To1d cose.Sign1Tag[protocol.To1d, []byte]
}

// BuildOwnerSign forges a TO0.OwnerSign body. hashOver, if non-nil, is hashed
// instead of the to0d actually sent (to0d/hash mismatch).
func BuildOwnerSign(ov *fdo.Voucher, ttl uint32, nonce protocol.Nonce, addrs []protocol.RvTO2Addr, signer *KeyEntry, pss bool, hashOver *hTo0d) ([]byte, error) {
	to0d := hTo0d{Voucher: *ov, WaitSeconds: ttl, NonceTO0Sign: nonce}
	alg := protocol.Sha256Hash
	if len(ov.Entries) > 0 {
		alg = ov.Entries[0].Payload.Val.PreviousHash.Algorithm
	}
	h := hashFor(alg)
	src := to0d
	if hashOver != nil {
		src = *hashOver
	}
	b, err := cbor.Marshal(src)
	if err != nil {
		return nil, err
	}
	h.Write(b)
	to1d := cose.Sign1[protocol.To1d, []byte]{Payload: cbor.NewByteWrap(protocol.To1d{RV: addrs, To0dHash: protocol.Hash{Algorithm: alg, Value: h.Sum(nil)}})}
	if err := to1d.Sign(signer.Key, nil, nil, SignOpts(signer, pss)); err != nil {
		return nil, err
	}
	return cbor.Marshal(hOwnerSign{To0d: *cbor.NewBstr(to0d), To1d: *to1d.Tag()})
}

var c06Attacks = []C06Plan{
	{Attack: "honest"},
	// the state backend of the rendezvous server fails one call during an honest
	// TO0: an AcceptOwner reply implies that the blob was stored
	{Attack: "store-error", KeyRole: "SetRVBlob"}, {Attack: "store-error", KeyRole: "NewToken"}, {Attack: "store-error", KeyRole: "SetTO0SignNonce"},
	{Attack: "store-error", KeyRole: "TO0SignNonce"}, {Attack: "store-error", KeyRole: "InvalidateToken"},
	{Attack: "forged-signer", KeyRole: "att1"}, {Attack: "forged-signer", KeyRole: "mfg"}, {Attack: "forged-signer", KeyRole: "owner3"}, {Attack: "forged-signer", KeyRole: "prev"},
	{Attack: "forged-overwrite", KeyRole: "att1"},
	{Attack: "control-builder"},
	// forged entries presented while a genuine registration of the same voucher is live
	{Attack: "broken-chain-overwrite"}, {Attack: "entry-swap"}, {Attack: "entry-swap-overwrite"},
	// the same with the entry's signature bytes left as they were (only the
	// payload names the attacker's key)
	{Attack: "entry-key-only"}, {Attack: "entry-key-only-overwrite"},
	{Attack: "zero-entries"}, {Attack: "broken-chain"}, {Attack: "foreign-nonce"}, {Attack: "hash-mismatch"}, {Attack: "replay"},
	// the same forgeries while one read or write of the rendezvous server's
	// state backend fails during the handling of OwnerSign
	{Attack: "replay+fail:TO0SignNonce"}, {Attack: "foreign-nonce+fail:TO0SignNonce"}, {Attack: "hash-mismatch+fail:TO0SignNonce"},
	{Attack: "forged-signer+fail:TO0SignNonce", KeyRole: "att1"}, {Attack: "broken-chain+fail:TO0SignNonce"},
	{Attack: "replay+fail:InvalidateToken"}, {Attack: "forged-signer+fail:RVBlob", KeyRole: "att1"}, {Attack: "replay+fail:RVBlob"},
}

func (p *c06) Prepare(t *testing.T, tier string, seed uint64) {
	if _, ok := p.plans[tier]; ok {
		return
	}
	var plans []C06Plan
	for fi, f := range c01SweepFams {
		base := C06Plan{Seed: seed*5023 + uint64(fi)*409 + 7, Key: f.Key, Enc: f.Enc, Chain: 2, Policy: "nil", TTL: 7200, Attack: "honest"}
		var body []byte
		_, restore := SeedCrypto(base.Seed)
		synctest.Test(t, func(t *testing.T) {
			c06Run(&Env{T: t, Out: &Outcome{Faults: map[string]int{}, Probes: map[string]int{}}}, &base, &body)
		})
		restore()
		for m := range AllMutations(body) {
			pl := base
			pl.Attack, pl.Ord = "leaf", m
			plans = append(plans, pl)
		}
	}
	i := 0
	policies := []string{"nil", "cap", "zero", "error", "const"}
	for _, k := range KeyTypes {
		for _, e := range KeyEncs {
			if k.IsRSA() && e == protocol.CoseKeyEnc {
				continue
			}
			for chain := 1; chain <= 3; chain++ {
				for _, a := range c06Attacks {
					pl := a
					pl.Key, pl.Enc, pl.Chain = k.Name, uint8(e), chain
					pl.Sql = i%5 == 0
					pl.Policy = policies[i%len(policies)]
					if a.Attack != "honest" && pl.Policy != "nil" && pl.Policy != "cap" {
						pl.Policy = "nil" // rejecting policies would mask the forged request
					}
					pl.TTL = []uint32{1, 60, 3600, 86400 * 365, 4294967295}[i%5]
					pl.Seed = seed*1_000_003 + uint64(i)*13 + 9
					i++
					plans = append(plans, pl)
				}
				// honest under each policy
				for _, pol := range policies {
					plans = append(plans, C06Plan{Seed: seed*1_000_003 + uint64(i)*13 + 9, Key: k.Name, Enc: uint8(e), Chain: chain, Sql: i%3 == 0, Policy: pol, TTL: []uint32{1, 3600, 4294967295}[i%3], Attack: "honest"})
					i++
				}
			}
		}
	}
	p.plans[tier] = plans
}

func (p *c06) NumPlans(tier string) int { return len(p.plans[tier]) }
func (p *c06) Plan(tier string, seed uint64, i int) any {
	pl := p.plans[tier][i]
	return &pl
}
func (p *c06) Shrink(plan any) []any {
	pl := plan.(*C06Plan)
	var out []any
	if pl.Sql {
		c := *pl
		c.Sql = false
		out = append(out, &c)
	}
	if pl.Chain > 1 && pl.Attack != "leaf" {
		c := *pl
		c.Chain--
		out = append(out, &c)
	}
	return out
}
func (p *c06) Exec(env *Env, plan any) { c06Run(env, plan.(*C06Plan), nil) }

func c06Run(env *Env, pl *C06Plan, collect *[]byte) {
	o := env.Out
	cfg := keyCfgByName(pl.Key, pl.Enc)
	ctx := context.Background()
	s, cleanup := NewStdSql(nil, cfg, map[string]bool{"rv": pl.Sql})
	defer cleanup()
	rv := s.Nodes["rv"]
	const capTTL = 600
	policyCalls := 0
	switch pl.Policy {
	case "cap":
		rv.AcceptTTL = func(_ context.Context, _ fdo.Voucher, req uint32) (uint32, error) {
			policyCalls++
			return min(req, capTTL), nil
		}
	case "zero":
		rv.AcceptTTL = func(context.Context, fdo.Voucher, uint32) (uint32, error) { policyCalls++; return 0, nil }
	case "error":
		rv.AcceptTTL = func(context.Context, fdo.Voucher, uint32) (uint32, error) {
			policyCalls++
			return 0, fmt.Errorf("policy refuses this voucher")
		}
	case "const":
		rv.AcceptTTL = func(context.Context, fdo.Voucher, uint32) (uint32, error) { policyCalls++; return 4242, nil }
	}
	setupFail := func(step string, err error) {
		o.Class = "setup-failed:" + step
		o.Violate("C06", "honest-setup", step+"|"+pl.Key, "honest preparation step %s failed for %+v: %v", step, *pl, err)
	}
	defer func() {
		env.Logf("plan=%+v class=%s", *pl, o.Class)
		for _, ev := range s.Net.Log {
			env.Logf("%d %s>%s %s %d/%d %s %v", ev.Seq, ev.From, ev.To, ev.Phase, ev.MsgType, ev.RespType, ev.BodyHash, ev.Faults)
		}
		for _, pr := range s.Net.Panics {
			o.Probe("panic:" + pr.Frame)
		}
		for k, v := range s.Net.Faults {
			o.Faults[k] += v
		}
	}()

	owners := c01Chains[pl.Chain]
	d1, chain, err := s.Provision(ctx, "dev1", "dev1", "mfg", owners...)
	if err != nil {
		setupFail("provision", err)
		return
	}
	ov := chain[len(chain)-1]
	guid := d1.Cred.GUID
	gk := hex.EncodeToString(guid[:])
	ip := net.IPv4(10, 0, 0, 7)
	dns := "attacker.example"
	evil := []protocol.RvTO2Addr{{IPAddress: &ip, DNSAddress: &dns, Port: 666, TransportProtocol: protocol.HTTPSTransport}}
	owner1 := s.Keys.Get("owner1", cfg.Fam())

	rvBlobs := func(from int) (n int, last Effect) {
		for _, e := range s.Journal.Since(from) {
			if e.Op == "SetRVBlob" && e.Node == "rv" {
				n++
				last = e
			}
		}
		return
	}
	var honestBody []byte
	s.Net.AddHook(func(ev *NetEvent) {
		if ev.Phase == "req" && ev.MsgType == 22 && ev.From == "owner1" && len(ev.Faults) == 0 && honestBody == nil {
			honestBody = append([]byte(nil), ev.Body...)
			if collect != nil {
				*collect = honestBody
			}
		}
	})

	expectedTTL := func(req uint32) (uint32, bool) {
		switch pl.Policy {
		case "cap":
			return min(req, capTTL), true
		case "zero", "error":
			return 0, false
		case "const":
			return 4242, true
		}
		return req, true
	}

	// forger session helper
	adv := &RawClient{Net: s.Net, From: "adversary", To: "rv"}
	hello := func(c *RawClient) (protocol.Nonce, error) {
		rt, b, err := c.Send(20, []byte{0x80})
		if err != nil || rt != 21 {
			return protocol.Nonce{}, fmt.Errorf("TO0.Hello answered %d (%v)", rt, err)
		}
		var ack struct{ N protocol.Nonce }
		if err := cbor.Unmarshal(b, &ack); err != nil {
			return protocol.Nonce{}, err
		}
		return ack.N, nil
	}

	switch pl.Attack {
	case "honest":
		j0 := s.Journal.Len()
		now := time.Now()
		ttl, err := s.TO0(ctx, "owner1", "rv", guid, pl.TTL)
		want, accept := expectedTTL(pl.TTL)
		n, last := rvBlobs(j0)
		o.Nontrivial = pl.Policy != "nil"
		if pl.Policy != "nil" {
			o.Fault("ttl-policy:" + pl.Policy)
		}
		o.Sample = map[string]any{"policy": pl.Policy, "requested": pl.TTL, "reply": ttl, "err": fmt.Sprint(err), "stored": n, "note": last.Note}
		if !accept {
			if err == nil || n != 0 {
				o.Class = "STORED-DESPITE-POLICY"
				o.Violate("C06", "ttl-policy", pl.Policy, "policy %s must reject, got err=%v stored=%d", pl.Policy, err, n)
				return
			}
			o.Class = "policy-rejected"
			return
		}
		if err != nil || n != 1 {
			o.Class = "honest-failed"
			o.Violate("C06", "honest-run-must-succeed", pl.Key+"|"+pl.Policy, "honest TO0 failed: err=%v stored=%d (plan %+v)", err, n, *pl)
			return
		}
		if ttl != want {
			o.Violate("C06", "ttl-reply", pl.Policy, "reply reports ttl %d, accepted ttl is %d", ttl, want)
		}
		wantExp := now.Add(time.Duration(want) * time.Second).Unix()
		if last.Note != fmt.Sprintf("exp=%d", wantExp) {
			o.Violate("C06", "ttl-expiry", pl.Policy, "stored expiry %s, expected exp=%d (now+%ds)", last.Note, wantExp, want)
		}
		if pl.Policy != "nil" && policyCalls == 0 {
			o.Violate("C06", "ttl-policy", "not-consulted", "policy callback never consulted")
		}
		o.Class = "honest-ok"
		return

	case "store-error":
		rv := s.Nodes["rv"]
		if rv.Sim == nil {
			o.Class = "noop"
			return
		}
		j0 := s.Journal.Len()
		rv.Sim.FailAt[pl.KeyRole] = rv.Sim.Calls[pl.KeyRole] + 1
		_, err := s.TO0(ctx, "owner1", "rv", guid, pl.TTL)
		fired := rv.Sim.Calls[pl.KeyRole] >= rv.Sim.FailAt[pl.KeyRole]
		delete(rv.Sim.FailAt, pl.KeyRole)
		n, _ := rvBlobs(j0)
		acked := false
		for _, ev := range s.Net.Log {
			if ev.Phase == "resp" && ev.RespType == 23 {
				acked = true
			}
		}
		if fired {
			o.Nontrivial = true
			o.Fault("store-error:" + pl.KeyRole)
		}
		o.Sample = map[string]any{"method": pl.KeyRole, "fired": fired, "acked": acked, "stored": n, "err": fmt.Sprint(err)}
		for _, pr := range s.Net.Panics {
			o.Violate("C06", "panic", pr.Frame, "panic at %s while the state backend failed %s", pr.Frame, pl.KeyRole)
		}
		if acked && n == 0 {
			o.Class = "ACK-WITHOUT-BLOB"
			o.Violate("C06", "acknowledged-but-not-stored", pl.KeyRole, "rendezvous server acknowledged the registration (23) although no blob was stored (%s failed)", pl.KeyRole)
			return
		}
		if !acked && err == nil {
			o.Violate("C06", "acknowledged-but-not-stored", "client|"+pl.KeyRole, "TO0 client reported success without an AcceptOwner reply")
		}
		if acked {
			o.Class = "store-error-tolerated"
		} else {
			o.Class = "store-error-refused"
		}
		return

	case "leaf":
		var mut Mutation
		var orig, mutated []byte
		hit := false
		j0 := 0
		s.Net.AddHook(func(ev *NetEvent) {
			if ev.Phase == "req" && ev.MsgType == 22 && ev.From == "owner1" && !hit {
				muts := AllMutations(ev.Body)
				mut = muts[pl.Ord%len(muts)]
				orig, mutated = ev.Body, mut.ApplyAny()
				ev.Body = mutated
				ev.Fault("leaf:22")
				hit = true
				j0 = s.Journal.Len()
			}
		})
		_, terr := s.TO0(ctx, "owner1", "rv", guid, pl.TTL)
		n, _ := rvBlobs(j0)
		// bound: everything inside to0d (hash) and the to1d protected value,
		// payload and signature
		bound := mut.Semantic && string(orig) != string(mutated) && !strings.HasPrefix(mut.Kind, "raw:") &&
			(strings.HasPrefix(mut.Path, "/0") || signRegion(mut.Path, "/1") == "bound")
		o.Nontrivial = true
		o.Sample = map[string]any{"mutation": mut.String(), "must_reject": bound, "stored": n, "err": fmt.Sprint(terr)}
		if bound && n > 0 {
			var back hOwnerSign
			if cbor.Unmarshal(mutated, &back) == nil {
				if nb, _ := cbor.Marshal(back); string(nb) == string(orig) {
					o.Class = "equivalent-encoding-accepted"
					o.Probe("accepted-noncanonical-but-equal-content")
					return
				}
			}
			o.Class = "STORED-ALTERED-REQUEST"
			o.Violate("C06", "altered-ownersign-stored", fmt.Sprintf("leaf|%s|%s", regionKey(mut.Path), mut.Kind), "blob stored for OwnerSign altered by %s", mut)
			return
		}
		if bound {
			o.Class = "rejected"
		} else if n > 0 {
			o.Class = "either-accepted"
		} else {
			o.Class = "either-rejected"
		}
		return
	}

	// forged requests
	storeFault := ""
	if a, m, ok := strings.Cut(pl.Attack, "+fail:"); ok {
		pl = &C06Plan{Seed: pl.Seed, Key: pl.Key, Enc: pl.Enc, Chain: pl.Chain, Sql: pl.Sql, Policy: pl.Policy, TTL: pl.TTL, Attack: a, KeyRole: pl.KeyRole, Ord: pl.Ord}
		storeFault = m
	}
	mustReject := true
	if pl.Attack == "forged-overwrite" || pl.Attack == "replay" || strings.HasSuffix(pl.Attack, "-overwrite") {
		if _, err := s.TO0(ctx, "owner1", "rv", guid, 3600); err != nil {
			setupFail("genuine-registration", err)
			return
		}
	}
	nonce, err := hello(adv)
	if err != nil {
		setupFail("hello", err)
		return
	}
	var body []byte
	switch pl.Attack {
	case "forged-signer", "forged-overwrite":
		role := pl.KeyRole
		if role == "prev" {
			role = "mfg"
			if pl.Chain >= 2 {
				role = owners[len(owners)-2]
			}
		}
		body, err = BuildOwnerSign(ov, pl.TTL, nonce, evil, s.Keys.Get(role, cfg.Fam()), cfg.PSS(), nil)
	case "control-builder":
		mustReject = false
		body, err = BuildOwnerSign(ov, pl.TTL, nonce, evil, owner1, cfg.PSS(), nil)
	case "zero-entries":
		body, err = BuildOwnerSign(chain[0], pl.TTL, nonce, evil, s.Keys.Get("mfg", cfg.Fam()), cfg.PSS(), nil)
	case "broken-chain", "broken-chain-overwrite", "entry-swap", "entry-swap-overwrite", "entry-key-only", "entry-key-only-overwrite":
		bad := *ov
		bad.Entries = append([]cose.Sign1Tag[fdo.VoucherEntryPayload, []byte](nil), ov.Entries...)
		last := bad.Entries[len(bad.Entries)-1]
		keepSignature := strings.HasPrefix(pl.Attack, "entry-key-only")
		if !keepSignature {
			last.Protected = nil
		}
		att := s.Keys.Get("att1", cfg.Fam())
		signer := owner1
		if strings.HasPrefix(pl.Attack, "entry-swap") || keepSignature {
			// the forged entry also names the attacker's key, who then signs to1d
			apk, perr := PublicKeyFor(cfg, att)
			if perr != nil {
				setupFail("attacker-key", perr)
				return
			}
			pv := *last.Payload
			pv.Val.PublicKey = *apk
			last.Payload = &pv
			signer = att
		}
		if !keepSignature {
			if err := last.Sign(att.Key, nil, nil, SignOpts(att, cfg.PSS())); err != nil {
				setupFail("resign-entry", err)
				return
			}
		}
		bad.Entries[len(bad.Entries)-1] = last
		body, err = BuildOwnerSign(&bad, pl.TTL, nonce, evil, signer, cfg.PSS(), nil)
	case "foreign-nonce":
		other := &RawClient{Net: s.Net, From: "adversary2", To: "rv"}
		n2, herr := hello(other)
		if herr != nil {
			setupFail("hello2", herr)
			return
		}
		body, err = BuildOwnerSign(ov, pl.TTL, n2, evil, owner1, cfg.PSS(), nil)
	case "hash-mismatch":
		body, err = BuildOwnerSign(ov, pl.TTL, nonce, evil, owner1, cfg.PSS(), &hTo0d{Voucher: *ov, WaitSeconds: pl.TTL + 1, NonceTO0Sign: nonce})
	case "replay":
		body = honestBody
		if body == nil {
			err = fmt.Errorf("no genuine OwnerSign recorded")
		}
	default:
		err = fmt.Errorf("unknown attack %q", pl.Attack)
	}
	if err != nil {
		setupFail("build-request", err)
		return
	}
	j0 := s.Journal.Len()
	if rv := s.Nodes["rv"]; storeFault != "" && rv.Sim != nil {
		rv.Sim.FailNext[storeFault] = 1
	}
	rt, _, _ := adv.Send(22, body)
	if rv := s.Nodes["rv"]; storeFault != "" && rv.Sim != nil {
		if rv.Sim.FailNext[storeFault] == 0 {
			o.Fault("store-error:" + storeFault)
		}
		rv.Sim.FailNext[storeFault] = 0
	}
	n, last := rvBlobs(j0)
	o.Nontrivial = true
	o.Sample = map[string]any{"attack": pl.Attack + ":" + pl.KeyRole, "response": rt, "stored": n, "guid": gk}
	switch {
	case !mustReject:
		if rt != 23 || n != 1 {
			o.Violate("C06", "correct-request-must-be-accepted", pl.Key, "a correct OwnerSign built by the harness and signed by the current owner was answered %d stored=%d", rt, n)
		}
		o.Class = "control-ok"
	case rt == 23 || n > 0:
		o.Class = "STORED-FORGED-BLOB"
		o.Violate("C06", "forged-registration-stored", pl.Attack+"|"+pl.KeyRole+"|"+storeFault, "rendezvous server answered %d and stored %d blob(s) (%s) for a request that is %s (state backend fault: %q; plan %+v)", rt, n, last.Note, pl.Attack, storeFault, *pl)
	default:
		o.Class = "rejected"
	}
}
