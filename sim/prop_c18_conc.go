package fdosim

import (
	"context"
	"fmt"
	mrand "math/rand/v2"
	"os"
	"path/filepath"

	"github.com/fido-device-onboard/go-fdo/protocol"
	"github.com/fido-device-onboard/go-fdo/sqlite"
)

// C18 (c) concurrent plans: 2-6 sessions, each a task of the seeded scheduler,
// use one fresh sqlite.DB at the same time. The backend's statement log is the
// seam that turns every SQL statement into a scheduling point, so sessions
// interleave between the statements of one state method (first use of the
// database included). Sessions are independent, so each is checked against
// its own sequential model.
func c18Concurrent(env *Env, pl *C18Plan) {
	o := env.Out
	k := NewKernel(pl.Seed, []SchedPolicy{SchedRandom, SchedPCT, SchedRandom}[pl.Seed%3], 400000)
	c18ConcSeq++
	file := filepath.Join(ScratchDir(), fmt.Sprintf("c18conc-%d.db", c18ConcSeq))
	_ = os.Remove(file)
	db, err := sqlite.Open(file, "")
	if err != nil {
		o.Violate("C18", "honest-setup", "open", "sqlite.Open: %v", err)
		return
	}
	defer func() {
		_ = db.Close()
		for _, sfx := range []string{"", "-journal", "-wal", "-shm"} {
			_ = os.Remove(file + sfx)
		}
	}()
	db.DebugLog = writerFunc(func(p []byte) (int, error) {
		k.Yield("sql.stmt")
		return len(p), nil
	})
	type res struct{ errs []string }
	results := make([]res, pl.Tokens)
	protos := []protocol.Protocol{protocol.DIProtocol, protocol.TO0Protocol, protocol.TO1Protocol, protocol.TO2Protocol}
	for t := 0; t < pl.Tokens; t++ {
		t := t
		k.Go(fmt.Sprintf("sess%d", t+1), func() {
			r := mrand.New(mrand.NewPCG(pl.Seed, uint64(t)+77))
			bad := func(f string, a ...any) { results[t].errs = append(results[t].errs, fmt.Sprintf(f, a...)) }
			ctx := context.Background()
			tok, err := db.NewToken(ctx, protos[(t+int(pl.Seed))%4])
			if err != nil {
				bad("NewToken: %v", err)
				return
			}
			ctx = db.TokenContext(ctx, tok)
			// sequential model of this session
			var guid, rguid *protocol.GUID
			var nonce *protocol.Nonce
			var mtu *uint16
			for i := 0; i < pl.Ops; i++ {
				switch r.IntN(8) {
				case 0:
					var g protocol.GUID
					g[0], g[1], g[15] = byte(t+1), byte(i), byte(r.Uint32())
					if err := db.SetGUID(ctx, g); err != nil {
						bad("op %d SetGUID with a live token: %v", i, err)
						return
					}
					guid = &g
				case 1:
					g, err := db.GUID(ctx)
					if guid == nil {
						if err == nil {
							bad("op %d GUID returned %x although this session never stored one", i, g[:4])
						}
					} else if err != nil || g != *guid {
						bad("op %d GUID = %x, %v; this session stored %x", i, g[:4], err, guid[:4])
					}
				case 2:
					var n protocol.Nonce
					n[0], n[1], n[15] = byte(t+1), byte(i), byte(r.Uint32())
					if err := db.SetProveDeviceNonce(ctx, n); err != nil {
						bad("op %d SetProveDeviceNonce with a live token: %v", i, err)
						return
					}
					nonce = &n
				case 3:
					n, err := db.ProveDeviceNonce(ctx)
					if nonce == nil {
						if err == nil {
							bad("op %d ProveDeviceNonce returned %x although this session never stored one", i, n[:4])
						}
					} else if err != nil || n != *nonce {
						bad("op %d ProveDeviceNonce = %x, %v; this session stored %x", i, n[:4], err, nonce[:4])
					}
				case 4:
					m := uint16(1000*(t+1) + i)
					if err := db.SetMTU(ctx, m); err != nil {
						bad("op %d SetMTU with a live token: %v", i, err)
						return
					}
					mtu = &m
				case 5:
					m, err := db.MTU(ctx)
					if mtu == nil {
						if err == nil {
							bad("op %d MTU returned %d although this session never stored one", i, m)
						}
					} else if err != nil || m != *mtu {
						bad("op %d MTU = %d, %v; this session stored %d", i, m, err, *mtu)
					}
				case 6:
					var g protocol.GUID
					g[0], g[1], g[14] = byte(t+1), byte(i), 0xee
					if err := db.SetReplacementGUID(ctx, g); err != nil {
						bad("op %d SetReplacementGUID with a live token: %v", i, err)
						return
					}
					rguid = &g
				case 7:
					g, err := db.ReplacementGUID(ctx)
					if rguid == nil {
						if err == nil {
							bad("op %d ReplacementGUID returned %x although this session never stored one", i, g[:4])
						}
					} else if err != nil || g != *rguid {
						bad("op %d ReplacementGUID = %x, %v; this session stored %x", i, g[:4], err, rguid[:4])
					}
				}
			}
			if err := db.InvalidateToken(ctx); err != nil {
				bad("InvalidateToken of a live token: %v", err)
				return
			}
			if _, err := db.GUID(ctx); err == nil {
				bad("GUID readable through an invalidated token")
			}
		})
	}
	k.Run()
	o.Steps, o.MultiSteps = k.Steps, k.MultiSteps
	o.Sched = fmt.Sprintf("%016x", k.TraceHash())
	o.Nontrivial = k.MultiSteps > 0
	env.Logf("concurrent sessions=%d ops=%d steps=%d sqlYields=%d", pl.Tokens, pl.Ops, k.Steps, k.Sites()["sql.stmt"])
	if k.Deadlock || k.Exhausted {
		o.Class = "DEADLOCK"
		o.Violate("C18", "deadlock", "concurrent", "concurrent sessions on one database did not finish (deadlock=%v exhausted=%v)", k.Deadlock, k.Exhausted)
		return
	}
	for t, r := range results {
		for _, e := range r.errs {
			env.Logf("sess%d: %s", t+1, e)
			o.Class = "CONCURRENT-SESSION-BROKEN"
			o.Violate("C18", "concurrent-session", c18ConcKey(e), "session %d of %d concurrent sessions: %s", t+1, pl.Tokens, e)
		}
	}
	var left int
	if err := db.DB().QueryRow("SELECT COUNT(*) FROM sessions").Scan(&left); err == nil && left != 0 && o.Class == "" {
		o.Violate("C18", "concurrent-session", "rows-left", "%d session row(s) left after every session was invalidated", left)
	}
	if o.Class == "" {
		o.Class = "concurrent-sessions-isolated"
	}
	o.Sample = map[string]any{"sessions": pl.Tokens, "ops": pl.Ops, "sql_statement_yields": k.Sites()["sql.stmt"]}
}

var c18ConcSeq int

func c18ConcKey(e string) string {
	for _, k := range []string{"NewToken", "with a live token", "never stored", "this session stored", "InvalidateToken", "invalidated token"} {
		if containsStr(e, k) {
			return k
		}
	}
	return "other"
}

func containsStr(s, sub string) bool {
	for i := 0; i+len(sub) <= len(s); i++ {
		if s[i:i+len(sub)] == sub {
			return true
		}
	}
	return false
}
