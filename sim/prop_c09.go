package fdosim

import (
	"context"
	"crypto"
	"fmt"
	"strings"

	"github.com/fido-device-onboard/go-fdo/kex"
	"github.com/fido-device-onboard/go-fdo/protocol"
)

// C09 — every supported crypto configuration onboards; forbidden ones are
// refused. Fault-free full-chain runs over the configuration product.

type C09Plan struct {
	Seed   uint64 `json:"seed"`
	Key    string `json:"key"`
	Enc    uint8  `json:"enc"`
	Kex    string `json:"kex"`
	Cipher string `json:"cipher"`
	Reuse  bool   `json:"reuse"`
	Bypass bool   `json:"bypass"`
	// Pad > 0 lengthens one devmod string by Pad-1 bytes, so that over a sweep of
	// sixteen values every plaintext length modulo the cipher block size occurs
	// in the tunnel (size-dependent framing, padding).
	Pad int `json:"pad,omitempty"`
}

type c09 struct {
	noPrepare
	tuples []C09Plan
}

func init() {
	p := &c09{}
	for _, k := range KeyTypes {
		for _, e := range KeyEncs {
			if k.IsRSA() && e == protocol.CoseKeyEnc {
				continue // COSE key encoding exists for EC keys only
			}
			for _, x := range KexNames {
				for _, c := range CipherSpecs {
					for _, reuse := range []bool{false, true} {
						for _, bypass := range []bool{false, true} {
							p.tuples = append(p.tuples, C09Plan{Key: k.Name, Enc: uint8(e), Kex: x, Cipher: c.Name, Reuse: reuse, Bypass: bypass})
						}
					}
				}
			}
		}
	}
	// every cipher suite with every message-length residue modulo 16
	for ci, c := range CipherSpecs {
		for pad := 1; pad <= 16; pad++ {
			k, x := "P-256", "ECDH256"
			if ci%2 == 1 {
				k, x = "RSA2048RESTR", "DHKEXid14"
			}
			p.tuples = append(p.tuples, C09Plan{Key: k, Enc: 1, Kex: x, Cipher: c.Name, Pad: pad})
		}
	}
	Register(p)
}

func (p *c09) ID() string    { return "C09" }
func (p *c09) Level() string { return "fault_enumeration" }
func (p *c09) NewPlan() any  { return &C09Plan{} }
func (p *c09) Rule() string {
	return "plans enumerate the product key type x encoding x kex x cipher x reuse x rv-bypass, plus every cipher suite with sixteen consecutive devmod lengths so that every tunnel plaintext length modulo 16 occurs (quick: every tuple once; thorough: every tuple under four different crypto random streams); a run is non-trivial when the tuple is valid and both TO2 rounds ran, or when it is forbidden and the refusal was observed; distinct = distinct tuples"
}
func (p *c09) Exhaustive(tier string) bool { return true }
func (p *c09) Components() map[string][]string {
	return map[string][]string{
		"real": {"fdo DI/TO0/TO1/TO2 clients and responders", "http.Handler", "http.Transport", "cbor", "cose", "kex", "nistkdf", "protocol", "blob credential encoding", "serviceinfo (devmod only)"},
		"stub": {"network (in-process round-tripper)", "state backend (simstore)", "clock (synctest)", "crypto randomness (seeded stream)", "owner module state machine (no modules)", "out-of-band voucher transfer"},
	}
}
func (p *c09) Assumptions() []string {
	return []string{
		"validity oracle is the harness' transcription of FDO 1.1 key-exchange rules: EC owner key P-256 <-> ECDH256, P-384 <-> ECDH384; device RSA keys are outside the specification's table and the library accepts every suite for them, so all six must complete",
		"long-term keys come from a fixed committed pool (one key per role and family)",
	}
}

func (p *c09) NumPlans(tier string) int {
	if tier == "thorough" {
		return 4 * len(p.tuples) // four crypto streams per tuple
	}
	return len(p.tuples)
}

func kexValid(k KeyCfg, kexName string) bool {
	switch k.Type {
	case protocol.Secp256r1KeyType:
		return kexName == "ECDH256"
	case protocol.Secp384r1KeyType:
		return kexName == "ECDH384"
	}
	return true
}

func (p *c09) Plan(tier string, seed uint64, i int) any {
	pl := p.tuples[i%len(p.tuples)]
	pl.Seed = seed*1_000_003 + uint64(i)
	return &pl
}

func (p *c09) Shrink(plan any) []any { return nil }

func keyCfgByName(name string, enc uint8) KeyCfg {
	for _, k := range KeyTypes {
		if k.Name == name {
			k.Enc = protocol.KeyEncoding(enc)
			return k
		}
	}
	panic("unknown key type " + name)
}

// helloDeviceOnWire extracts (kex name, cipher id) from a TO2.HelloDevice body.
func helloDeviceOnWire(body []byte) (string, int64, error) {
	n, err := ParseCBOR(body)
	if err != nil {
		return "", 0, err
	}
	if n.Major != 4 || len(n.Kids) < 6 || n.Kids[3].Major != 3 {
		return "", 0, fmt.Errorf("unexpected HelloDevice shape")
	}
	c, _ := n.Kids[4].Int()
	return string(n.Kids[3].Bytes), c, nil
}

func (p *c09) Exec(env *Env, plan any) {
	pl := plan.(*C09Plan)
	o := env.Out
	cfg := keyCfgByName(pl.Key, pl.Enc)
	spec := CipherSpecByName(pl.Cipher)
	valid := kexValid(cfg, pl.Kex)
	ctx := context.Background()

	w := NewWorld(nil)
	mfg := w.AddSimNode("mfg", "mfg", "")
	mfg.MfgBits = cfg.Bits
	w.AddSimNode("rv", "", "")
	o1 := w.AddSimNode("owner1", "", "owner1")
	o2 := w.AddSimNode("owner2", "", "owner2")
	o1.Reuse, o2.Reuse = pl.Reuse, pl.Reuse
	mon := NewTunnelMonitor(spec)
	var hellos [][]byte
	w.Net.AddHook(func(ev *NetEvent) {
		if ev.Phase == "req" && ev.MsgType == 60 {
			hellos = append(hellos, ev.Body)
		}
	})
	w.Net.AddHook(mon.Hook)
	dev := w.NewDevice("dev1", "dev1", cfg)
	fail := func(step string, err error) {
		o.Class = "fail:" + step
		o.Violate("C09", "valid-config-must-onboard", step+"|"+pl.Key, "%s failed for %+v: %v", step, *pl, err)
	}
	defer func() {
		for _, pr := range w.Net.Panics {
			o.Violate("C09", "panic", pr.Frame, "panic in %s: %s", pr.Where, pr.Value)
		}
		env.Logf("class=%s msgs=%d", o.Class, len(w.Net.Log))
		for _, ev := range w.Net.Log {
			env.Logf("%d %s>%s %s %d/%d %s", ev.Seq, ev.From, ev.To, ev.Phase, ev.MsgType, ev.RespType, ev.BodyHash)
		}
		o.Sample = map[string]any{"messages": len(w.Net.Log), "tunnel_frames": len(mon.Frames)}
	}()

	if err := w.DI(ctx, dev, "mfg"); err != nil {
		fail("DI", err)
		return
	}
	guid0 := dev.Cred.GUID
	if _, err := w.ExtendTo(ctx, "mfg", guid0, cfg, "mfg", "owner1", "owner1"); err != nil {
		fail("Extend", err)
		return
	}
	var to1dArg = (*to1dT)(nil)
	if !pl.Bypass {
		if _, err := w.TO0(ctx, "owner1", "rv", guid0, 3600); err != nil {
			fail("TO0", err)
			return
		}
		blob, err := w.TO1(ctx, dev, "rv")
		if err != nil {
			fail("TO1", err)
			return
		}
		to1dArg = blob
	}
	opts := TO2Opts{Kex: kex.Suite(pl.Kex), Cipher: spec.ID, AllowReuse: pl.Reuse}
	if pl.Pad > 0 {
		dm := defaultDevmod
		dm.Device += strings.Repeat("x", pl.Pad-1)
		opts.Devmod = &dm
	}
	credBefore := append([]byte(nil), dev.CredBlob...)
	jBefore := w.Journal.Len()
	var reused bool
	err, _ := w.Net.SafeCall("TO2", func() (e error) { reused, e = w.TO2(ctx, dev, "owner1", to1dArg, opts); return })

	// the suite names on the wire are the ones requested (nothing is silently
	// renegotiated on the device side)
	for _, h := range hellos {
		k, c, perr := helloDeviceOnWire(h)
		if perr != nil || k != pl.Kex || c != int64(spec.ID) {
			o.Violate("C09", "suite-on-wire", "HelloDevice", "HelloDevice carries kex=%q cipher=%d, requested %s/%d (%v)", k, c, pl.Kex, spec.ID, perr)
		}
	}

	if !valid {
		// forbidden: error on both sides, no key exchange completed, nothing stored
		if err == nil {
			o.Class = "forbidden-accepted"
			o.Violate("C09", "forbidden-config-must-fail", pl.Key+"|"+pl.Kex, "TO2 succeeded for forbidden combination %+v", *pl)
			return
		}
		serverErr := false
		for _, ev := range w.Net.Log {
			if ev.Phase == "resp" && ev.From == "owner1" && ev.RespType == 255 {
				serverErr = true
			}
			if ev.Phase == "req" && ev.MsgType == 64 {
				o.Violate("C09", "forbidden-config-must-fail", "ProveDevice-sent", "device sent ProveDevice for forbidden combination %+v", *pl)
			}
		}
		if !serverErr {
			o.Violate("C09", "forbidden-config-must-fail", "owner-no-error", "owner did not answer with an error message for forbidden combination %+v", *pl)
		}
		for _, e := range w.Journal.Since(jBefore) {
			if e.Op == "ReplaceVoucher" || e.Op == "module.start" {
				o.Violate("C09", "forbidden-config-must-fail", "effect", "effect %s for forbidden combination", e.Op)
			}
		}
		if len(mon.Frames) > 0 {
			o.Violate("C09", "forbidden-config-must-fail", "tunnel", "encrypted traffic for forbidden combination")
		}
		o.Class = "forbidden-refused"
		o.Nontrivial = true
		return
	}
	if err != nil {
		fail("TO2", err)
		return
	}
	if reused != pl.Reuse {
		o.Violate("C09", "reuse-setting", pl.Key, "reuse=%v requested, got reused=%v", pl.Reuse, reused)
	}
	if pl.Reuse && string(credBefore) != string(dev.CredBlob) {
		o.Violate("C09", "reuse-setting", "cred-changed", "credential changed under reuse")
	}
	if !pl.Reuse && dev.Cred.GUID == guid0 {
		o.Violate("C09", "reuse-setting", "guid-unchanged", "GUID unchanged after replacement")
	}
	// the owner stored a session for exactly the requested suite
	okSuite := false
	for _, e := range w.Journal.Since(jBefore) {
		if e.Op == "SetXSession" {
			okSuite = e.Key == pl.Kex
		}
	}
	if !okSuite {
		o.Violate("C09", "suite-on-wire", "owner-session", "owner session suite differs from requested %s", pl.Kex)
	}
	round1Frames := len(mon.Frames)
	if round1Frames < 4 {
		o.Violate("C09", "tunnel-encrypted", "frames", "only %d encrypted frames seen in TO2", round1Frames)
	}

	// resale and second TO2 (RV bypass) at owner2
	var next crypto.PublicKey = w.Keys.Get("owner2", cfg.Fam()).Key.Public()
	if cfg.Enc == protocol.X5ChainKeyEnc {
		next = w.Keys.Get("owner2", cfg.Fam()).Chain
	}
	ov, err := o1.TO2.Resell(ctx, dev.Cred.GUID, next, nil)
	if err != nil {
		fail("Resell", err)
		return
	}
	if err := o2.Store.AddVoucher(ctx, ov); err != nil {
		fail("AddVoucher", err)
		return
	}
	err, _ = w.Net.SafeCall("TO2#2", func() (e error) { _, e = w.TO2(ctx, dev, "owner2", nil, opts); return })
	if err != nil {
		fail("TO2#2", err)
		return
	}
	for _, e := range mon.Errors {
		o.Violate("C09", "tunnel-encrypted", "monitor", "%s", e)
	}
	if len(mon.Frames) < round1Frames+4 {
		o.Violate("C09", "tunnel-encrypted", "frames2", "second TO2 not encrypted")
	}
	o.Class = "onboarded"
	o.Nontrivial = true
}
