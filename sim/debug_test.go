package fdosim

import (
	"encoding/json"
	"fmt"
	"os"
	"strconv"
	"testing"
)

// TestDbgPlan prints (and with RUN=1 executes) plan number PLAN of VERIF_PROP.
func TestDbgPlan(t *testing.T) {
	p := props[os.Getenv("VERIF_PROP")]
	if p == nil {
		t.Skip("VERIF_PROP not set")
	}
	tier := os.Getenv("VERIF_TIER")
	if tier == "" {
		tier = "quick"
	}
	p.Prepare(t, tier, uint64(envInt("VERIF_SEED", 1)))
	i, _ := strconv.Atoi(os.Getenv("PLAN"))
	pl := p.Plan(tier, uint64(envInt("VERIF_SEED", 1)), i)
	b, _ := json.Marshal(pl)
	fmt.Println(string(b))
	if os.Getenv("RUN") != "" {
		dbgLog = os.Getenv("LOG") != ""
		o := RunPlan(t, p, pl)
		b, _ = json.Marshal(o)
		fmt.Println(string(b))
	}
}

// TestDbgReplayLog re-executes a replay file echoing the event log.
func TestDbgReplayLog(t *testing.T) {
	path := os.Getenv("VERIF_REPLAY_LOG")
	if path == "" {
		t.Skip("VERIF_REPLAY_LOG not set")
	}
	b, _ := os.ReadFile(path)
	var rf ReplayFile
	_ = json.Unmarshal(b, &rf)
	p := props[rf.Property]
	plan := p.NewPlan()
	_ = json.Unmarshal(rf.Plan, plan)
	p.Prepare(t, rf.Tier, 0)
	dbgLog = true
	o := RunPlan(t, p, plan)
	fmt.Println(string(rf.Plan))
	for _, v := range o.Violations {
		fmt.Println("VIOL", v.Key, v.Detail)
	}
}
