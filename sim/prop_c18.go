package fdosim

import (
	"bytes"
	"context"
	"crypto/rand"
	"crypto/rsa"
	"crypto/x509"
	"encoding"
	"errors"
	"fmt"
	mrand "math/rand/v2"
	"os"
	"path/filepath"
	"runtime/debug"
	"strings"
	"time"

	fdo "github.com/fido-device-onboard/go-fdo"
	"github.com/fido-device-onboard/go-fdo/cbor"
	"github.com/fido-device-onboard/go-fdo/kex"
	"github.com/fido-device-onboard/go-fdo/protocol"
	"github.com/fido-device-onboard/go-fdo/serviceinfo"
	"github.com/fido-device-onboard/go-fdo/sqlite"
)

// C18 — the SQLite backend is a faithful, session-isolated store across
// restarts. (a) random histories of every state-interface method over several
// tokens against the real sqlite.DB and an in-memory reference model, with
// restart and clock jumps as generated operations; (b) whole onboardings with
// the server side torn down and rebuilt from the database file before every
// message.

type C18Plan struct {
	Seed   uint64 `json:"seed"`
	Kind   string `json:"kind"` // model | protocol | concurrent
	Ops    int    `json:"ops"`
	Tokens int    `json:"tokens"`
	Key    string `json:"key,omitempty"`
	Enc    uint8  `json:"enc,omitempty"`
	Mode   string `json:"mode,omitempty"` // protocol: kill | clean | alternate
}

type c18 struct{ noPrepare }

func init() { Register(&c18{}) }

func (p *c18) ID() string    { return "C18" }
func (p *c18) Level() string { return "exploration" }
func (p *c18) NewPlan() any  { return &C18Plan{} }
func (p *c18) Rule() string {
	return "(a) model plans: a seeded history of 40-400 operations over 2-6 tokens drawn from every method of the token service and the DI/TO0/TO1/TO2 session, rendezvous-blob, voucher and key interfaces, with values of every shape (each key-exchange session type at each stage, empty/large rendezvous info, devmod with and without optional fields, both HMAC sizes, vouchers with 0-2 entries), token variants (valid, invalidated, damaged, truncated, foreign, empty, non-base64), clock jumps around blob expiry and restart (kill without close / clean reopen) as operations, executed against the real sqlite.DB and a map-based reference model and compared operation by operation; (b) protocol plans: DI, TO0, TO1, TO2 (and resale + TO2) on sqlite nodes with the target node rebuilt from its database file before every request; (c) concurrent plans: 2-6 sessions as tasks of the seeded scheduler on one fresh database, every SQL statement a scheduling point (statement-log seam), each session checked against its own sequential model; non-trivial = the history contained a restart, an invalid-token access or a clock jump; distinct = distinct (history, outcome, log hash)"
}
func (p *c18) Exhaustive(string) bool { return false }
func (p *c18) Components() map[string][]string {
	return map[string][]string{
		"real": {"sqlite.DB (every state method, token MAC, schema, cascade delete, expiry filter)", "go-sqlite3/wazero inside the synctest bubble", "kex session (de)serialisation", "full protocol stack in protocol plans"},
		"stub": {"reference model (maps)", "clock (synctest)", "crypto randomness", "process restart (fresh sqlite.DB on the same file)"},
	}
}
func (p *c18) Assumptions() []string {
	return []string{
		"a Set that the backend refuses with an error is not applied to the model (refusal is not loss); wrong or foreign data returned by a Get, data readable through an invalid token, and data lost by a restart are violations",
		"errors are compared by outcome (ok vs error), not by class: an invalidated token may yield 'not found' or 'invalid session'",
		"page-level crash consistency of SQLite itself is out of scope",
	}
}

func (p *c18) NumPlans(tier string) int {
	if tier == "thorough" {
		return 6000
	}
	return 420
}

func (p *c18) Plan(tier string, seed uint64, i int) any {
	r := mrand.New(mrand.NewPCG(seed*53+1, uint64(i)))
	if i%7 == 3 {
		return &C18Plan{Seed: seed*1_000_003 + uint64(i), Kind: "concurrent", Ops: 3 + r.IntN(12), Tokens: 2 + r.IntN(5)}
	}
	if i%7 == 6 {
		f := c01SweepFams[(i/7)%len(c01SweepFams)]
		return &C18Plan{Seed: seed*1_000_003 + uint64(i), Kind: "protocol", Key: f.Key, Enc: f.Enc, Mode: []string{"kill", "clean", "alternate"}[(i/21)%3]}
	}
	return &C18Plan{Seed: seed*1_000_003 + uint64(i), Kind: "model", Ops: 40 + r.IntN(360), Tokens: 2 + r.IntN(5)}
}

func (p *c18) Shrink(plan any) []any {
	pl := plan.(*C18Plan)
	if pl.Kind != "model" {
		return nil
	}
	var out []any
	for _, n := range []int{pl.Ops / 2, pl.Ops * 3 / 4, pl.Ops - 10, pl.Ops - 1} {
		if n > 0 && n < pl.Ops {
			c := *pl
			c.Ops = n
			out = append(out, &c)
		}
	}
	return out
}

func (p *c18) Exec(env *Env, plan any) {
	pl := plan.(*C18Plan)
	if pl.Kind == "protocol" {
		c18Protocol(env, pl)
		return
	}
	if pl.Kind == "concurrent" {
		c18Concurrent(env, pl)
		return
	}
	c18Model(env, pl)
}

// --- (b) protocol level ---

func c18Protocol(env *Env, pl *C18Plan) {
	o := env.Out
	cfg := keyCfgByName(pl.Key, pl.Enc)
	ctx := context.Background()
	s, cleanup := NewStdSql(nil, cfg, map[string]bool{"mfg": true, "rv": true, "owner1": true, "owner2": true})
	defer cleanup()
	rec := &ModRecorder{}
	for _, n := range []string{"owner1", "owner2"} {
		s.Nodes[n].Mods = &ModSM{Factory: PingFactory(s.Nodes[n], rec, [][]byte{[]byte("module-data-across-restarts")})}
	}
	restarts := 0
	s.Net.AddHook(func(ev *NetEvent) {
		if ev.Phase != "req" {
			return
		}
		n := s.Nodes[ev.To]
		if n == nil || n.Sql == nil {
			return
		}
		clean := pl.Mode == "clean" || (pl.Mode == "alternate" && restarts%2 == 0)
		// module state machines are in-memory harness objects: keep them (a real
		// deployment persists module state through ModulePersister)
		var keep map[string]*modSess
		if n.Mods != nil {
			keep = n.Mods.sess
		}
		if err := n.RestartSql(clean); err != nil {
			o.Violate("C18", "restart", "reopen", "reopening %s failed: %v", ev.To, err)
			return
		}
		if keep != nil {
			n.Mods.sess = keep
		}
		restarts++
		ev.Fault("crash:" + map[bool]string{true: "clean", false: "kill"}[clean])
	})
	defer func() {
		env.Logf("plan=%+v class=%s restarts=%d", *pl, o.Class, restarts)
		for _, ev := range s.Net.Log {
			env.Logf("%d %s>%s %s %d/%d %d %s", ev.Seq, ev.From, ev.To, ev.Phase, ev.MsgType, ev.RespType, ev.Status, ev.BodyHash)
		}
		for k, v := range s.Net.Faults {
			o.Faults[k] += v
		}
	}()
	fail := func(step string, err error) {
		o.Class = "FAILED:" + step
		o.Violate("C18", "onboarding-across-restarts", step+"|"+pl.Key+"|"+pl.Mode, "%s failed with the server rebuilt from the database before every message (%s, %s): %v", step, pl.Key, pl.Mode, err)
	}
	d, _, err := s.Provision(ctx, "dev1", "dev1", "mfg", "owner1")
	if err != nil {
		fail("DI/extend", err)
		return
	}
	if _, err := s.TO0(ctx, "owner1", "rv", d.Cred.GUID, 3600); err != nil {
		fail("TO0", err)
		return
	}
	to1d, err := s.TO1(ctx, d, "rv")
	if err != nil {
		fail("TO1", err)
		return
	}
	opts := func() TO2Opts {
		return TO2Opts{Kex: defaultKex(cfg), Cipher: kex.A128GcmCipher, Modules: map[string]serviceinfo.DeviceModule{"ping": &PongDevice{Mod: "ping", Rec: rec}}}
	}
	if _, err := s.TO2(ctx, d, "owner1", to1d, opts()); err != nil {
		fail("TO2", err)
		return
	}
	s.Nodes["owner1"].Handler()
	ov, err := s.Nodes["owner1"].TO2.Resell(ctx, d.Cred.GUID, nextOwnerArg(s, cfg, "owner2"), nil)
	if err != nil {
		fail("Resell", err)
		return
	}
	if err := s.Nodes["owner2"].Store.AddVoucher(ctx, ov); err != nil {
		fail("AddVoucher", err)
		return
	}
	if _, err := s.TO2(ctx, d, "owner2", nil, opts()); err != nil {
		fail("TO2#2", err)
		return
	}
	if rec.Count("Receive") < 2 {
		o.Violate("C18", "onboarding-across-restarts", "modules", "device modules did not run in both onboardings")
	}
	o.Class = "onboarded-across-restarts"
	o.Nontrivial = true
	o.Sample = map[string]any{"restarts": restarts, "mode": pl.Mode}
}

func nextOwnerArg(s *Std, cfg KeyCfg, role string) any {
	if cfg.Enc == protocol.X5ChainKeyEnc {
		return s.Keys.Get(role, cfg.Fam()).Chain
	}
	return s.Keys.Get(role, cfg.Fam()).Key.Public()
}

// --- (a) model based ---

type c18State struct {
	valid    map[string]bool              // tokens that currently grant access
	fields   map[string]map[string][]byte // token -> field -> canonical value
	vouchers map[protocol.GUID][]byte
	blobs    map[protocol.GUID]c18Blob
}

type c18Blob struct {
	to1d, voucher []byte
	exp           time.Time
}

func c18Model(env *Env, pl *C18Plan) {
	o := env.Out
	r := mrand.New(mrand.NewPCG(pl.Seed, 0xc18))
	ctx := context.Background()
	keys, _ := LoadKeys()
	dir := ScratchDir()
	file := filepath.Join(dir, fmt.Sprintf("c18-%d.db", pl.Seed))
	other := filepath.Join(dir, fmt.Sprintf("c18-%d-other.db", pl.Seed))
	for _, f := range []string{file, other} {
		_ = os.Remove(f)
	}
	db, err := sqlite.Open(file, "")
	if err != nil {
		o.Violate("C18", "open", "open", "sqlite.Open: %v", err)
		return
	}
	otherDB, err := sqlite.Open(other, "")
	if err != nil {
		o.Violate("C18", "open", "open", "sqlite.Open: %v", err)
		return
	}
	defer func() {
		_ = db.Close()
		_ = otherDB.Close()
		for _, f := range []string{file, other} {
			for _, suf := range []string{"", "-journal", "-wal", "-shm"} {
				_ = os.Remove(f + suf)
			}
		}
	}()
	_ = db.AddOwnerKey(protocol.Secp256r1KeyType, keys.Get("owner1", P256).Key, keys.Get("owner1", P256).Chain)
	_ = db.AddOwnerKey(protocol.RsaPkcsKeyType, keys.Get("owner1", RSA3072).Key, nil)
	_ = db.AddManufacturerKey(protocol.Secp384r1KeyType, keys.Get("mfg", P384).Key, keys.Get("mfg", P384).Chain)

	m := &c18State{valid: map[string]bool{}, fields: map[string]map[string][]byte{}, vouchers: map[protocol.GUID][]byte{}, blobs: map[protocol.GUID]c18Blob{}}
	var tokens []string // every token ever issued by db
	var hist []string
	step := 0
	bad := func(oracle, key, f string, a ...any) {
		tail := hist
		if len(tail) > 12 {
			tail = tail[len(tail)-12:]
		}
		o.Violate("C18", oracle, key, "%s; last operations: %s", fmt.Sprintf(f, a...), strings.Join(tail, " ; "))
	}
	defer func() {
		env.Logf("plan=%+v class=%s ops=%d", *pl, o.Class, step)
		for _, h := range hist {
			env.Logf("%s", h)
		}
	}()

	// value generators
	vouchers, err := c18Vouchers()
	if err != nil {
		o.Violate("C18", "setup", "vouchers", "could not produce vouchers: %v", err)
		return
	}
	randBytes := func(n int) []byte { b := make([]byte, n); _, _ = rand.Read(b); return b }
	var guids []protocol.GUID
	for _, v := range vouchers {
		guids = append(guids, v.Header.Val.GUID)
	}
	for i := 0; i < 3; i++ {
		var g protocol.GUID
		copy(g[:], randBytes(16))
		guids = append(guids, g)
	}
	ownerRSA := keys.Get("owner1", RSA3072)

	pickToken := func() (tok string, kind string) {
		switch k := r.IntN(20); {
		case k < 13 && len(tokens) > 0:
			t := tokens[r.IntN(len(tokens))]
			if m.valid[t] {
				return t, "valid"
			}
			return t, "invalidated"
		case k == 13 && len(tokens) > 0:
			b := []byte(tokens[r.IntN(len(tokens))])
			i := r.IntN(len(b))
			if b[i] == 'A' {
				b[i] = 'B'
			} else {
				b[i] = 'A'
			}
			if m.valid[string(b)] {
				return string(b), "valid"
			}
			return string(b), "damaged"
		case k == 14 && len(tokens) > 0:
			t := tokens[r.IntN(len(tokens))]
			return t[:r.IntN(len(t))], "truncated"
		case k == 15:
			t, _ := otherDB.NewToken(ctx, protocol.TO2Protocol)
			return t, "foreign"
		case k == 16:
			return "", "empty"
		case k == 17:
			return "!!!not base64 at all %%%", "garbage"
		}
		if len(tokens) > 0 {
			t := tokens[r.IntN(len(tokens))]
			if m.valid[t] {
				return t, "valid"
			}
			return t, "invalidated"
		}
		return "", "empty"
	}
	tctx := func(tok string) context.Context { return db.TokenContext(ctx, tok) }

	type field struct {
		name string
		gen  func() (canon []byte, set func(context.Context) error)
		get  func(context.Context) ([]byte, error)
	}
	nonceField := func(name string, set func(context.Context, protocol.Nonce) error, get func(context.Context) (protocol.Nonce, error)) field {
		return field{name: name,
			gen: func() ([]byte, func(context.Context) error) {
				var n protocol.Nonce
				copy(n[:], randBytes(16))
				return n[:], func(c context.Context) error { return set(c, n) }
			},
			get: func(c context.Context) ([]byte, error) { n, err := get(c); return n[:], err }}
	}
	guidField := func(name string, set func(context.Context, protocol.GUID) error, get func(context.Context) (protocol.GUID, error)) field {
		return field{name: name,
			gen: func() ([]byte, func(context.Context) error) {
				g := guids[r.IntN(len(guids))]
				return g[:], func(c context.Context) error { return set(c, g) }
			},
			get: func(c context.Context) ([]byte, error) { g, err := get(c); return g[:], err }}
	}
	fieldsList := func() []field {
		return []field{
			guidField("GUID", db.SetGUID, db.GUID),
			guidField("ReplacementGUID", db.SetReplacementGUID, db.ReplacementGUID),
			nonceField("ProveDeviceNonce", db.SetProveDeviceNonce, db.ProveDeviceNonce),
			nonceField("SetupDeviceNonce", db.SetSetupDeviceNonce, db.SetupDeviceNonce),
			nonceField("TO0SignNonce", db.SetTO0SignNonce, db.TO0SignNonce),
			nonceField("TO1ProofNonce", db.SetTO1ProofNonce, db.TO1ProofNonce),
			{name: "MTU",
				gen: func() ([]byte, func(context.Context) error) {
					v := []uint16{0, 1, 255, 256, 1300, 65535}[r.IntN(6)]
					return []byte{byte(v >> 8), byte(v)}, func(c context.Context) error { return db.SetMTU(c, v) }
				},
				get: func(c context.Context) ([]byte, error) {
					v, err := db.MTU(c)
					return []byte{byte(v >> 8), byte(v)}, err
				}},
			{name: "RvInfo",
				gen: func() ([]byte, func(context.Context) error) {
					var rv [][]protocol.RvInstruction
					switch r.IntN(4) {
					case 0:
						rv = [][]protocol.RvInstruction{}
					case 1:
						rv = [][]protocol.RvInstruction{{{Variable: protocol.RVDns, Value: mustCBOR("a.example")}}}
					case 2:
						for i := 0; i < 40; i++ {
							rv = append(rv, []protocol.RvInstruction{{Variable: protocol.RVDns, Value: mustCBOR(strings.Repeat("x", 50))}, {Variable: protocol.RVDevPort, Value: mustCBOR(uint16(i))}})
						}
					default:
						rv = [][]protocol.RvInstruction{{}, {{Variable: protocol.RVBypass, Value: nil}}}
					}
					return mustCBOR(rv), func(c context.Context) error { return db.SetRvInfo(c, rv) }
				},
				get: func(c context.Context) ([]byte, error) {
					rv, err := db.RvInfo(c)
					if err != nil {
						return nil, err
					}
					return mustCBOR(rv), nil
				}},
			{name: "ReplacementHmac",
				gen: func() ([]byte, func(context.Context) error) {
					h := protocol.Hmac{Algorithm: protocol.HmacSha256Hash, Value: randBytes(32)}
					if r.IntN(2) == 0 {
						h = protocol.Hmac{Algorithm: protocol.HmacSha384Hash, Value: randBytes(48)}
					}
					return mustCBOR(h), func(c context.Context) error { return db.SetReplacementHmac(c, h) }
				},
				get: func(c context.Context) ([]byte, error) {
					h, err := db.ReplacementHmac(c)
					if err != nil {
						return nil, err
					}
					return mustCBOR(h), nil
				}},
			{name: "Devmod",
				gen: func() ([]byte, func(context.Context) error) {
					d := serviceinfo.Devmod{Os: "os", Arch: "arch", Version: "v", Device: "dev", FileSep: "/", Bin: "bin"}
					if r.IntN(2) == 0 {
						d.Serial, d.PathSep, d.Newline, d.Temp, d.Dir, d.ProgEnv, d.MudURL = []byte{1, 2, 3}, ":", "\n", "/tmp", "/d", "sh", "https://mud"
					}
					var mods []string
					for i, n := 0, []int{0, 1, 5, 200}[r.IntN(4)]; i < n; i++ {
						mods = append(mods, fmt.Sprintf("mod%d", i))
					}
					complete := r.IntN(2) == 0
					canon := mustCBOR(devmodRec{d, mods, complete})
					return canon, func(c context.Context) error { return db.SetDevmod(c, d, mods, complete) }
				},
				get: func(c context.Context) ([]byte, error) {
					d, mods, complete, err := db.Devmod(c)
					if err != nil {
						return nil, err
					}
					if len(mods) == 0 {
						mods = nil
					}
					return mustCBOR(devmodRec{d, mods, complete}), nil
				}},
			{name: "XSession",
				gen: func() ([]byte, func(context.Context) error) {
					suite := kex.Suite(KexNames[r.IntN(len(KexNames))])
					cipher := CipherSpecs[r.IntN(len(CipherSpecs))].ID
					sess := suite.New(nil, cipher)
					// every stage of the exchange: fresh, after Parameter, completed
					if stage := r.IntN(3); stage >= 1 {
						priv := ownerRSA.Key.(*rsa.PrivateKey)
						xA, _ := sess.Parameter(rand.Reader, &priv.PublicKey)
						if stage == 2 {
							dev := suite.New(xA, cipher)
							if xB, err := dev.Parameter(rand.Reader, &priv.PublicKey); err == nil {
								_ = sess.SetParameter(xB, priv)
							}
						}
					}
					canon := marshalSession(suite, sess)
					return canon, func(c context.Context) error { return db.SetXSession(c, suite, sess) }
				},
				get: func(c context.Context) ([]byte, error) {
					suite, sess, err := db.XSession(c)
					if err != nil {
						return nil, err
					}
					return marshalSession(suite, sess), nil
				}},
			{name: "DeviceCertChain",
				gen: func() ([]byte, func(context.Context) error) {
					chain := []*x509.Certificate{keys.Get("dev1", P256).Cert, keys.Get("devca", P384).Cert}
					if r.IntN(2) == 0 {
						chain = []*x509.Certificate{keys.Get("dev2", RSA2048).Cert}
					}
					var der []byte
					for _, c := range chain {
						der = append(der, c.Raw...)
					}
					return der, func(c context.Context) error { return db.SetDeviceCertChain(c, chain) }
				},
				get: func(c context.Context) ([]byte, error) {
					chain, err := db.DeviceCertChain(c)
					if err != nil {
						return nil, err
					}
					var der []byte
					for _, c := range chain {
						der = append(der, c.Raw...)
					}
					return der, nil
				}},
			{name: "IncompleteVoucherHeader",
				gen: func() ([]byte, func(context.Context) error) {
					h := vouchers[r.IntN(len(vouchers))].Header.Val
					return mustCBOR(&h), func(c context.Context) error { return db.SetIncompleteVoucherHeader(c, &h) }
				},
				get: func(c context.Context) ([]byte, error) {
					h, err := db.IncompleteVoucherHeader(c)
					if err != nil {
						return nil, err
					}
					return mustCBOR(h), nil
				}},
		}
	}
	fl := fieldsList()
	restarts, invalidAcc, jumps := 0, 0, 0

	defer func() {
		if rec := recover(); rec != nil {
			st := string(debug.Stack())
			o.Class = "PANIC"
			bad("panic", TopLibraryFrame(st), "state backend panicked: %v", rec)
		}
	}()
	for step = 0; step < pl.Ops; step++ {
		switch op := r.IntN(100); {
		case op < 6 || len(tokens) < pl.Tokens && op < 30:
			proto := []protocol.Protocol{protocol.DIProtocol, protocol.TO0Protocol, protocol.TO1Protocol, protocol.TO2Protocol}[r.IntN(4)]
			t, err := db.NewToken(ctx, proto)
			hist = append(hist, fmt.Sprintf("%d NewToken(%s) err=%v", step, proto, err))
			if err != nil {
				bad("newtoken", "error", "NewToken failed: %v", err)
				return
			}
			if m.valid[t] {
				bad("newtoken", "duplicate", "NewToken returned a token that is already live")
				return
			}
			tokens = append(tokens, t)
			m.valid[t] = true
			m.fields[t] = map[string][]byte{}
		case op < 40: // set
			f := fl[r.IntN(len(fl))]
			tok, kind := pickToken()
			canon, set := f.gen()
			err := set(tctx(tok))
			hist = append(hist, fmt.Sprintf("%d Set%s(tok#%d %s %s) err=%v", step, f.name, tokIndex(tokens, tok), kind, digest(canon), err))
			if kind != "valid" {
				invalidAcc++
				if err == nil {
					// the write must not be observable through any token
					for _, t := range tokens {
						if got, gerr := f.get(tctx(t)); gerr == nil && bytes.Equal(got, canon) && !bytes.Equal(m.fields[t][f.name], canon) {
							bad("invalid-token-write-visible", f.name+"|"+kind, "Set%s through a %s token succeeded and the value is readable through token #%d", f.name, kind, tokIndex(tokens, t))
							return
						}
					}
					if got, gerr := f.get(tctx(tok)); gerr == nil {
						bad("invalid-token-grants-access", f.name+"|"+kind, "Set%s then Get through a %s token succeeded (%x…)", f.name, kind, head(got, 8))
						return
					}
				}
				continue
			}
			if err == nil {
				m.fields[tok][f.name] = canon
			} else {
				o.Probe("backend-refused-set:" + f.name)
			}
		case op < 78: // get
			f := fl[r.IntN(len(fl))]
			tok, kind := pickToken()
			got, err := f.get(tctx(tok))
			hist = append(hist, fmt.Sprintf("%d Get%s(tok#%d %s) -> %s err=%v", step, f.name, tokIndex(tokens, tok), kind, digest(got), err))
			if kind != "valid" {
				invalidAcc++
				if err == nil {
					bad("invalid-token-grants-access", f.name+"|"+kind, "Get%s through a %s token returned data (%x…)", f.name, kind, head(got, 8))
					return
				}
				continue
			}
			want, has := m.fields[tok][f.name]
			switch {
			case has && err != nil:
				bad("stored-value-lost", f.name, "Get%s for token #%d failed (%v) although a value was stored (restarts so far: %d)", f.name, tokIndex(tokens, tok), err, restarts)
				return
			case has && !bytes.Equal(got, want):
				who := "nobody"
				for _, t := range tokens {
					for fn, v := range m.fields[t] {
						if bytes.Equal(v, got) {
							who = fmt.Sprintf("token #%d field %s", tokIndex(tokens, t), fn)
						}
					}
				}
				bad("wrong-value-read", f.name, "Get%s for token #%d returned %s, stored was %s (the returned value belongs to %s)", f.name, tokIndex(tokens, tok), digest(got), digest(want), who)
				return
			case !has && err == nil:
				bad("value-from-nowhere", f.name, "Get%s for token #%d returned data (%x…) although nothing was stored for it", f.name, tokIndex(tokens, tok), head(got, 8))
				return
			}
		case op < 82: // invalidate
			tok, kind := pickToken()
			err := db.InvalidateToken(tctx(tok))
			hist = append(hist, fmt.Sprintf("%d Invalidate(tok#%d %s) err=%v", step, tokIndex(tokens, tok), kind, err))
			if kind == "valid" {
				if err != nil {
					bad("invalidate", "error", "InvalidateToken of a live token failed: %v", err)
					return
				}
				delete(m.valid, tok)
				delete(m.fields, tok)
			}
		case op < 86: // restart
			clean := r.IntN(2) == 0
			old := db
			if clean {
				_ = old.Close()
			}
			ndb, err := sqlite.Open(file, "")
			if err != nil {
				bad("restart", "reopen", "reopen failed: %v", err)
				return
			}
			if !clean {
				_ = old.Close()
			}
			db = ndb
			fl = fieldsList()
			restarts++
			o.Fault("crash:" + map[bool]string{true: "clean", false: "kill"}[clean])
			hist = append(hist, fmt.Sprintf("%d Restart(clean=%v)", step, clean))
		case op < 89: // clock
			d := []time.Duration{500 * time.Millisecond, time.Second, 59 * time.Second, time.Hour, 25 * time.Hour}[r.IntN(5)]
			time.Sleep(d)
			jumps++
			o.Fault("clock_jump")
			hist = append(hist, fmt.Sprintf("%d Clock(+%s)", step, d))
		case op < 93: // rendezvous blobs
			v := vouchers[r.IntN(len(vouchers))]
			g := v.Header.Val.GUID
			if r.IntN(2) == 0 {
				ttl := []time.Duration{time.Second, time.Minute, 24 * time.Hour}[r.IntN(3)]
				to1d := c18To1d(r)
				exp := time.Now().Add(ttl)
				err := db.SetRVBlob(ctx, v, to1d, exp)
				hist = append(hist, fmt.Sprintf("%d SetRVBlob(%x ttl=%s) err=%v", step, g[:2], ttl, err))
				if err == nil {
					m.blobs[g] = c18Blob{mustCBOR(to1d), mustCBOR(v), time.Unix(exp.Unix(), 0)}
				}
			} else {
				if r.IntN(4) == 0 {
					g = guids[r.IntN(len(guids))]
				}
				to1d, ov, err := db.RVBlob(ctx, g)
				hist = append(hist, fmt.Sprintf("%d RVBlob(%x) err=%v", step, g[:2], err))
				b, has := m.blobs[g]
				live := has && !time.Now().After(b.exp)
				switch {
				case live && err != nil:
					bad("blob-lost", "rvblob", "RVBlob(%x) failed (%v) although a live registration exists (expires %s, now %s)", g[:4], err, b.exp, time.Now())
					return
				case !live && err == nil:
					bad("expired-or-unknown-blob-served", map[bool]string{true: "expired", false: "unknown"}[has], "RVBlob(%x) returned a blob although the registration is %s", g[:4], map[bool]string{true: "expired", false: "unknown"}[has])
					return
				case live && (!bytes.Equal(mustCBOR(to1d), b.to1d) || !bytes.Equal(mustCBOR(ov), b.voucher)):
					bad("wrong-value-read", "rvblob", "RVBlob(%x) returned a different blob or voucher than registered", g[:4])
					return
				}
				if errors.Is(err, fdo.ErrNotFound) && has && !live {
					o.Probe("expired-blob-not-found")
				}
			}
		default: // vouchers
			v := vouchers[r.IntN(len(vouchers))]
			g := v.Header.Val.GUID
			switch r.IntN(4) {
			case 0:
				err := db.AddVoucher(ctx, v)
				hist = append(hist, fmt.Sprintf("%d AddVoucher(%x) err=%v", step, g[:2], err))
				if err == nil {
					if _, dup := m.vouchers[g]; dup {
						o.Probe("addvoucher-overwrote")
					}
					m.vouchers[g] = mustCBOR(v)
				}
			case 1:
				if r.IntN(4) == 0 {
					g = guids[r.IntN(len(guids))]
				}
				ov, err := db.Voucher(ctx, g)
				hist = append(hist, fmt.Sprintf("%d Voucher(%x) err=%v", step, g[:2], err))
				want, has := m.vouchers[g]
				switch {
				case has && err != nil:
					bad("stored-value-lost", "voucher", "Voucher(%x) failed (%v) although it was stored", g[:4], err)
					return
				case !has && err == nil:
					bad("value-from-nowhere", "voucher", "Voucher(%x) returned a voucher that is not stored (removed or replaced?)", g[:4])
					return
				case has && !bytes.Equal(mustCBOR(ov), want):
					bad("wrong-value-read", "voucher", "Voucher(%x) returned different bytes than stored", g[:4])
					return
				}
			case 2:
				// replace g by a zero-entry voucher with another GUID
				repl := vouchers[r.IntN(len(vouchers))]
				if len(repl.Entries) != 0 {
					repl = vouchers[0]
				}
				ng := repl.Header.Val.GUID
				if ng == g {
					// replacing a voucher by one with the same GUID is outside the
					// statement (TO2 always replaces under a fresh GUID)
					continue
				}
				err := db.ReplaceVoucher(ctx, g, repl)
				hist = append(hist, fmt.Sprintf("%d ReplaceVoucher(%x -> %x) err=%v", step, g[:2], ng[:2], err))
				if err == nil {
					delete(m.vouchers, g)
					m.vouchers[ng] = mustCBOR(repl)
					if _, err := db.Voucher(ctx, ng); err != nil {
						bad("replace", "new-missing", "after ReplaceVoucher the new voucher %x is not retrievable: %v", ng[:4], err)
						return
					}
					if g != ng {
						if _, err := db.Voucher(ctx, g); err == nil {
							bad("replace", "old-kept", "after ReplaceVoucher the old voucher %x is still retrievable", g[:4])
							return
						}
					}
				} else {
					// a failed replace must leave the store as the model has it
					for _, gg := range []protocol.GUID{g, ng} {
						_, gerr := db.Voucher(ctx, gg)
						if _, has := m.vouchers[gg]; has != (gerr == nil) {
							bad("replace", "failed-replace-changed-store", "ReplaceVoucher failed (%v) but voucher %x presence changed", err, gg[:4])
							return
						}
					}
				}
			default:
				ov, err := db.RemoveVoucher(ctx, g)
				hist = append(hist, fmt.Sprintf("%d RemoveVoucher(%x) err=%v", step, g[:2], err))
				want, has := m.vouchers[g]
				switch {
				case has && err != nil:
					bad("stored-value-lost", "removevoucher", "RemoveVoucher(%x) failed (%v) although it was stored", g[:4], err)
					return
				case !has && err == nil:
					bad("value-from-nowhere", "removevoucher", "RemoveVoucher(%x) returned a voucher that is not stored", g[:4])
					return
				case has && !bytes.Equal(mustCBOR(ov), want):
					bad("wrong-value-read", "removevoucher", "RemoveVoucher(%x) returned different bytes than stored", g[:4])
					return
				}
				delete(m.vouchers, g)
			}
		}
	}
	// keys survive everything
	if _, _, err := db.OwnerKey(ctx, protocol.Secp256r1KeyType, 0); err != nil {
		bad("stored-value-lost", "ownerkey", "owner key lost: %v", err)
	}
	if _, _, err := db.OwnerKey(ctx, protocol.RsaPkcsKeyType, 3072); err != nil {
		bad("stored-value-lost", "ownerkey-rsa", "RSA owner key lost: %v", err)
	}
	if _, _, err := db.ManufacturerKey(ctx, protocol.Secp384r1KeyType, 0); err != nil {
		bad("stored-value-lost", "mfgkey", "manufacturer key lost: %v", err)
	}
	o.Class = "refines-model"
	o.Nontrivial = restarts > 0 || invalidAcc > 0 || jumps > 0
	o.Sample = map[string]any{"ops": step, "tokens": len(tokens), "restarts": restarts, "invalid_token_accesses": invalidAcc, "clock_jumps": jumps}
}

func tokIndex(tokens []string, t string) int {
	for i, x := range tokens {
		if x == t {
			return i
		}
	}
	return -1
}

func marshalSession(suite kex.Suite, sess kex.Session) []byte {
	b, err := sess.(encoding.BinaryMarshaler).MarshalBinary()
	if err != nil {
		return []byte("marshal-error:" + err.Error())
	}
	return append([]byte(string(suite)+"|"), b...)
}

// c18Vouchers produces genuine vouchers with 0, 1 and 2 entries through a
// small simulated history.
func c18Vouchers() ([]*fdo.Voucher, error) {
	cfg := keyCfgByName("P-256", uint8(protocol.X509KeyEnc))
	s := NewStd(nil, cfg)
	ctx := context.Background()
	var out []*fdo.Voucher
	for i, owners := range [][]string{{}, {"owner1"}, {"owner2", "owner1"}, {}} {
		_, chain, err := s.Provision(ctx, fmt.Sprintf("dev%d", i+1), fmt.Sprintf("dev%d", i+1), "mfg", owners...)
		if err != nil {
			return nil, err
		}
		out = append(out, chain[len(chain)-1])
	}
	return out, nil
}

func c18To1d(r *mrand.Rand) *to1dT {
	dns := fmt.Sprintf("owner%d.example", r.IntN(1000))
	return &to1dT{Payload: cbor.NewByteWrap(protocol.To1d{
		RV:       []protocol.RvTO2Addr{{DNSAddress: &dns, Port: uint16(r.IntN(65536)), TransportProtocol: protocol.HTTPTransport}},
		To0dHash: protocol.Hash{Algorithm: protocol.Sha256Hash, Value: make([]byte, 32)},
	}), Signature: []byte{1, 2, 3, 4}}
}
