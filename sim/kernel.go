package fdosim

// Cooperative deterministic scheduler ("kernel"). Tasks are real goroutines
// that run only when released by the scheduler goroutine and hand control back
// at the next yield point. See DESIGN.md §2.2.
//
// Rules that keep this sound (found in the spikes):
//   - raceOff/raceOn bracket ONLY channel statements, never a call;
//   - all maps are touched on the scheduler goroutine only;
//   - a task never yields while holding a sync.Mutex.

import (
	"bytes"
	"hash/fnv"
	"math/rand/v2"
	"runtime"
	"sort"
	"strconv"
	"strings"
	"testing/synctest"
	"time"
)

type reg struct {
	goid uint64
	site string
	done bool
	ch   chan struct{}
	step int
}

// SchedPolicy selects how the next runnable task is chosen.
type SchedPolicy string

const (
	SchedRandom SchedPolicy = "random" // uniform over runnable tasks
	SchedPCT    SchedPolicy = "pct"    // random priorities with a few change points
	SchedFIFO   SchedPolicy = "fifo"   // lowest stable id first (used when shrinking)
)

type Kernel struct {
	regCh  chan *reg
	rng    *rand.Rand
	policy SchedPolicy

	names  map[uint64]string
	ord    map[string]int
	parked map[string]*reg
	prio   map[string]int
	live   int

	changeAt map[int]bool

	Steps       int
	MaxRunnable int
	MultiSteps  int // steps at which >=2 tasks were runnable
	MaxSteps    int
	Trace       []string // bounded
	traceHash   uint64
	Deadlock    bool
	Exhausted   bool
	free        bool // free-running mode after budget exhaustion
	prioSalt    uint64
	siteCount   map[string]int
	// OnRelease, if set, is called by the scheduler right before it lets the
	// chosen task continue from the named yield site (fault injection at exact
	// program points: the task resumes with the fault already in effect).
	OnRelease func(task, site string)
}

func goid() uint64 {
	var buf [64]byte
	n := runtime.Stack(buf[:], false)
	b := buf[:n]
	b = b[len("goroutine "):]
	i := bytes.IndexByte(b, ' ')
	v, _ := strconv.ParseUint(string(b[:i]), 10, 64)
	return v
}

func NewKernel(seed uint64, policy SchedPolicy, maxSteps int) *Kernel {
	k := &Kernel{
		regCh:     make(chan *reg, 8192),
		names:     map[uint64]string{},
		ord:       map[string]int{},
		parked:    map[string]*reg{},
		prio:      map[string]int{},
		changeAt:  map[int]bool{},
		siteCount: map[string]int{},
		rng:       rand.New(rand.NewPCG(seed, 0x6b65726e)),
		policy:    policy,
		MaxSteps:  maxSteps,
		prioSalt:  seed*0x9e3779b97f4a7c15 + 0x7f4a7c15,
	}
	if policy == SchedPCT {
		d := 1 + k.rng.IntN(3)
		for i := 0; i < d; i++ {
			k.changeAt[k.rng.IntN(1+maxSteps/20)] = true
		}
	}
	return k
}

// Go starts a managed task.
func (k *Kernel) Go(name string, f func()) {
	go func() {
		k.Yield("start:" + name)
		defer k.exit()
		f()
	}()
}

//go:norace
func (k *Kernel) exit() {
	r := &reg{goid: goid(), done: true}
	raceOff()
	k.regCh <- r
	raceOn()
}

// Yield parks the calling goroutine until the scheduler picks it. It returns
// the kernel step number at which it was released.
//
//go:norace
func (k *Kernel) Yield(site string) int {
	if k == nil || k.free {
		return 0
	}
	r := &reg{goid: goid(), site: site, ch: make(chan struct{})}
	raceOff()
	k.regCh <- r
	<-r.ch
	raceOn()
	return r.step
}

// Sleep advances virtual time for this task and then yields.
func (k *Kernel) Sleep(d time.Duration, site string) {
	time.Sleep(d)
	k.Yield(site)
}

//go:norace
func (k *Kernel) drain() {
	for {
		raceOff()
		var r *reg
		select {
		case r = <-k.regCh:
		default:
		}
		raceOn()
		if r == nil {
			return
		}
		k.admit(r)
	}
}

//go:norace
func (k *Kernel) admit(r *reg) {
	name, ok := k.names[r.goid]
	if !ok {
		if r.done {
			return
		}
		base := strings.TrimPrefix(r.site, "start:")
		managed := strings.HasPrefix(r.site, "start:")
		if !managed {
			base = "lib:" + base
		}
		k.ord[base]++
		name = base + "#" + strconv.Itoa(k.ord[base])
		k.names[r.goid] = name
		// priorities are a function of (seed, stable name): registrations of
		// tasks that start at the same instant arrive in arbitrary order, so
		// nothing may be drawn from the PRNG at admission
		hp := fnv.New64a()
		_, _ = hp.Write([]byte(name))
		k.prio[name] = int((hp.Sum64() ^ k.prioSalt) >> 44)
		if managed {
			k.live++
		}
	}
	if r.done {
		delete(k.names, r.goid)
		if !strings.HasPrefix(name, "lib:") {
			k.live--
		}
		return
	}
	k.parked[name] = r
}

//go:norace
func (k *Kernel) release(r *reg) {
	raceOff()
	r.ch <- struct{}{}
	raceOn()
}

// Run schedules until every managed task has exited and no library task is
// parked.
//
//go:norace
func (k *Kernel) Run() {
	h := fnv.New64a()
	for {
		synctest.Wait()
		k.drain()
		if len(k.parked) == 0 {
			if k.live <= 0 {
				k.traceHash = h.Sum64()
				return
			}
			// Nothing runnable: let virtual time advance to the next timer. A
			// registration arrives when some sleeping/blocked task wakes.
			tm := time.NewTimer(250 * 365 * 24 * time.Hour)
			var r *reg
			raceOff()
			select {
			case r = <-k.regCh:
			case <-tm.C:
			}
			raceOn()
			tm.Stop()
			if r == nil {
				k.Deadlock = true
				k.traceHash = h.Sum64()
				return
			}
			k.admit(r)
			continue
		}
		names := make([]string, 0, len(k.parked))
		for n := range k.parked {
			names = append(names, n)
		}
		sort.Strings(names)
		if len(names) > k.MaxRunnable {
			k.MaxRunnable = len(names)
		}
		if len(names) > 1 {
			k.MultiSteps++
		}
		var pick string
		switch k.policy {
		case SchedFIFO:
			pick = names[0]
		case SchedPCT:
			pick = names[0]
			best := k.prio[pick]
			for _, n := range names[1:] {
				if p := k.prio[n]; p > best {
					best, pick = p, n
				}
			}
			if k.changeAt[k.Steps] {
				k.prio[pick] = -k.Steps // demote below everyone
			}
		default:
			pick = names[k.rng.IntN(len(names))]
		}
		r := k.parked[pick]
		delete(k.parked, pick)
		k.Steps++
		r.step = k.Steps
		k.siteCount[r.site]++
		if len(k.Trace) < 4000 {
			k.Trace = append(k.Trace, pick+"@"+r.site)
		}
		_, _ = h.Write([]byte(pick))
		_, _ = h.Write([]byte{'@'})
		_, _ = h.Write([]byte(r.site))
		_, _ = h.Write([]byte{0, byte(len(names))})
		if k.OnRelease != nil {
			k.OnRelease(pick, r.site)
		}
		if k.MaxSteps > 0 && k.Steps >= k.MaxSteps && !k.free {
			// Budget exhausted: switch to free-running so that tasks can finish
			// (or block for good, which synctest reports).
			k.Exhausted = true
			k.free = true
			k.release(r)
			for _, n := range names {
				if n != pick {
					k.release(k.parked[n])
					delete(k.parked, n)
				}
			}
			k.traceHash = h.Sum64()
			k.freeRun()
			return
		}
		k.release(r)
	}
}

// freeRun keeps releasing registrations that were in flight when the kernel
// switched to free-running mode.
//
//go:norace
func (k *Kernel) freeRun() {
	for i := 0; i < 1000; i++ {
		synctest.Wait()
		any := false
		for {
			raceOff()
			var r *reg
			select {
			case r = <-k.regCh:
			default:
			}
			raceOn()
			if r == nil {
				break
			}
			any = true
			if !r.done {
				k.release(r)
			}
		}
		if !any {
			return
		}
	}
}

// Shuffle permutes names with a stream derived from the kernel seed only (it
// does not consume scheduling randomness and is safe from any task).
func (k *Kernel) Shuffle(names []string) {
	r := rand.New(rand.NewPCG(k.prioSalt, uint64(len(names))))
	r.Shuffle(len(names), func(i, j int) { names[i], names[j] = names[j], names[i] })
}

// StepCount returns the number of scheduling steps taken so far. It is read by
// tasks while they hold the (single) run permission.
//
//go:norace
func (k *Kernel) StepCount() int { return k.Steps }

// TraceHash identifies the schedule (task@site sequence and runnable-set sizes).
func (k *Kernel) TraceHash() uint64 { return k.traceHash }

// Sites returns how often each yield site was scheduled.
func (k *Kernel) Sites() map[string]int { return k.siteCount }
