package fdosim

import (
	"context"
	"crypto/ecdsa"
	"crypto/rsa"
	"crypto/sha256"
	"crypto/sha512"
	"fmt"
	"hash"
	"strings"
	"testing"
	"testing/synctest"

	fdo "github.com/fido-device-onboard/go-fdo"
	"github.com/fido-device-onboard/go-fdo/cbor"
	"github.com/fido-device-onboard/go-fdo/cose"
	"github.com/fido-device-onboard/go-fdo/kex"
	"github.com/fido-device-onboard/go-fdo/protocol"
	"github.com/fido-device-onboard/go-fdo/serviceinfo"
)

// C01 — the device completes TO2 only with the owner its voucher chain
// designates. Honest device (real fdo.TO2) against a man-in-the-middle or a
// rogue owner built from the run's own multi-party history.

type C01Plan struct {
	Seed    uint64 `json:"seed"`
	Key     string `json:"key"`
	Enc     uint8  `json:"enc"`
	Chain   int    `json:"chain"` // number of owners in the voucher chain (1..3)
	To1d    bool   `json:"to1d"`
	Attack  string `json:"attack"`
	Phase   string `json:"phase,omitempty"` // leaf attacks: req|resp
	Msg     int    `json:"msg,omitempty"`   // leaf attacks: message type hit
	Occur   int    `json:"occur,omitempty"`
	Ord     int    `json:"ord,omitempty"` // mutation ordinal
	KeyRole string `json:"key_role,omitempty"`
	Swap    bool   `json:"swap,omitempty"`
}

type c01 struct {
	plans map[string][]C01Plan
}

func init() { Register(&c01{plans: map[string][]C01Plan{}}) }

func (p *c01) ID() string    { return "C01" }
func (p *c01) Level() string { return "fault_enumeration" }
func (p *c01) NewPlan() any  { return &C01Plan{} }
func (p *c01) Rule() string {
	return "plans = (a) complete sweep of every structure-aware leaf/byte mutation (refcbor tree x kind list) of HelloDevice, ProveOVHdr, each OVNextEntry and the RVRedirect blob for the sweep configuration families, plus (b) every composite adversary scenario (re-sign with foreign/earlier-owner/manufacturer keys with and without swapping the advertised key, rogue owners presenting another device's / another manufacturer's / a previous-epoch / an appended / a branch-spliced voucher, replayed ProveOVHdr, swapped and renumbered entries, foreign to1d) x key type x encoding x chain length x with/without to1d; a run is non-trivial when the adversary actually altered a delivered message or a rogue owner answered; distinct = distinct (fault, outcome, event-log hash)"
}
func (p *c01) Exhaustive(tier string) bool { return false }
func (p *c01) Components() map[string][]string {
	return map[string][]string{
		"real": {"fdo.TO2/TO1/DI device roles", "fdo.TO2Server/TO1Server/TO0Server/DIServer (also as rogue owner over a lying store)", "http.Handler", "http.Transport", "cbor", "cose", "kex", "voucher verification", "serviceinfo pipeline"},
		"stub": {"network + man-in-the-middle (simnet hooks)", "state backend (simstore)", "clock (synctest)", "crypto randomness (seeded)", "owner/device ping modules", "out-of-band voucher transfer"},
	}
}
func (p *c01) Assumptions() []string {
	return []string{
		"expectation MUST_REJECT only for alterations of bound content: bytes inside the protected header value, payload or signature of the COSE_Sign1 objects, the OVEntryNum echo, any byte of HelloDevice, and by-construction forgeries; alterations of unprotected header maps, of CBOR framing around unchanged content and non-semantic re-encodings are EITHER (never judged)",
		"a recovered panic counts as rejection here; it is reported under C10",
		"forged objects are built with /repo's cose/cbor encoders (construction only)",
	}
}

var c01SweepFams = []struct {
	Key string
	Enc uint8
}{{"P-256", 1}, {"P-384", 3}, {"RSA2048RESTR", 2}}

type c01Target struct {
	Phase string
	Msg   int
	Occur int
}

func c01Targets(chain int, to1d bool) []c01Target {
	t := []c01Target{{"req", 60, 0}, {"resp", 61, 0}}
	for i := 0; i < chain; i++ {
		t = append(t, c01Target{"resp", 63, i})
	}
	if to1d {
		t = append(t, c01Target{"resp", 33, 0})
	}
	return t
}

func c01SweepSeed(seed uint64, fam int) uint64 { return seed*7919 + uint64(fam)*104729 + 11 }

// Prepare runs the honest baseline of each sweep family to learn how many
// mutations each target message has, then lays out the plan list.
func (p *c01) Prepare(t *testing.T, tier string, seed uint64) {
	if _, ok := p.plans[tier]; ok {
		return
	}
	var plans []C01Plan
	fams := c01SweepFams
	chains := []int{2}
	if tier == "thorough" {
		chains = []int{1, 2, 3}
	}
	for fi, f := range fams {
		for _, chain := range chains {
			base := C01Plan{Seed: c01SweepSeed(seed, fi*10+chain), Key: f.Key, Enc: f.Enc, Chain: chain, To1d: true, Attack: "none"}
			bodies := map[c01Target][]byte{}
			_, restore := SeedCrypto(base.Seed)
			synctest.Test(t, func(t *testing.T) {
				env := &Env{T: t, Out: &Outcome{}}
				c01Run(env, &base, bodies)
			})
			restore()
			for _, tg := range c01Targets(chain, true) {
				n := len(AllMutations(bodies[tg]))
				for m := 0; m < n; m++ {
					pl := base
					pl.Attack, pl.Phase, pl.Msg, pl.Occur, pl.Ord = "leaf", tg.Phase, tg.Msg, tg.Occur, m
					plans = append(plans, pl)
				}
			}
		}
	}
	// composite scenarios
	type kc struct {
		Key string
		Enc uint8
	}
	var cfgs []kc
	for _, k := range KeyTypes {
		for _, e := range KeyEncs {
			if k.IsRSA() && e == protocol.CoseKeyEnc {
				continue
			}
			cfgs = append(cfgs, kc{k.Name, uint8(e)})
		}
	}
	i := 0
	for _, c := range cfgs {
		for chain := 1; chain <= 3; chain++ {
			for _, to1d := range []bool{true, false} {
				add := func(pl C01Plan) {
					pl.Key, pl.Enc, pl.Chain, pl.To1d = c.Key, c.Enc, chain, to1d
					pl.Seed = seed*1_000_003 + uint64(i)*31 + 5
					i++
					plans = append(plans, pl)
				}
				add(C01Plan{Attack: "none"})
				for _, role := range []string{"att1", "owner2", "owner3", "mfg"} {
					for _, swap := range []bool{false, true} {
						add(C01Plan{Attack: "resign61", KeyRole: role, Swap: swap})
					}
				}
				for e := 0; e < chain; e++ {
					for _, role := range []string{"att1", "owner1"} {
						add(C01Plan{Attack: "resign63", Occur: e, KeyRole: role})
					}
				}
				if to1d {
					for _, role := range []string{"att1", "owner2", "mfg"} {
						add(C01Plan{Attack: "resignTo1d", KeyRole: role})
					}
				}
				add(C01Plan{Attack: "rogueOtherDevice"})
				add(C01Plan{Attack: "rogueOtherMfg"})
				add(C01Plan{Attack: "rogueOldEpoch"})
				add(C01Plan{Attack: "rogueAppend"})
				add(C01Plan{Attack: "rogueBadHeaderHash"})
				add(C01Plan{Attack: "zeroEntriesResign", KeyRole: "att1"})
				add(C01Plan{Attack: "zeroEntriesResign", KeyRole: "owner2"})
				add(C01Plan{Attack: "rogueForgedHeader"})
				add(C01Plan{Attack: "rogueForgedHeaderHmacFault", Occur: 1})
				add(C01Plan{Attack: "rogueForgedHeaderHmacFault", Occur: 2})
				add(C01Plan{Attack: "rogueGoodForgedEntry"})
				add(C01Plan{Attack: "replay61"})
				if chain >= 2 {
					add(C01Plan{Attack: "rogueSplice"})
					add(C01Plan{Attack: "swapEntries"})
					add(C01Plan{Attack: "swapEntriesRenumber"})
					add(C01Plan{Attack: "truncChainResign"})
				}
			}
		}
	}
	p.plans[tier] = plans
}

func (p *c01) NumPlans(tier string) int { return len(p.plans[tier]) }
func (p *c01) Plan(tier string, seed uint64, i int) any {
	pl := p.plans[tier][i]
	return &pl
}

func (p *c01) Shrink(plan any) []any {
	pl := plan.(*C01Plan)
	var out []any
	if pl.Chain > 1 && pl.Attack != "rogueSplice" && !strings.HasPrefix(pl.Attack, "swapEntries") && pl.Attack != "truncChainResign" && pl.Attack != "leaf" && pl.Occur < pl.Chain-1 {
		c := *pl
		c.Chain--
		out = append(out, &c)
	}
	if pl.To1d && pl.Attack != "resignTo1d" && !(pl.Attack == "leaf" && pl.Msg == 33) && pl.Attack != "leaf" {
		c := *pl
		c.To1d = false
		out = append(out, &c)
	}
	return out
}

func (p *c01) Exec(env *Env, plan any) { c01Run(env, plan.(*C01Plan), nil) }

var c01Chains = map[int][]string{1: {"owner1"}, 2: {"owner2", "owner1"}, 3: {"owner3", "owner2", "owner1"}}

// signRegion classifies a refcbor path inside a tagged COSE_Sign1 rooted at
// prefix: "bound" for the protected value, payload and signature.
func signRegion(path, prefix string) string {
	rest, ok := strings.CutPrefix(path, prefix)
	if !ok {
		return "outside"
	}
	for _, b := range []string{"/0/0/e/0", "/0/0/e/1", "/0/2", "/0/3"} {
		if rest == b || strings.HasPrefix(rest, b+"/") {
			// the protected header is re-serialised from its decoded map before
			// verification, so only its key/value leaves are bound, not its framing
			return "bound"
		}
	}
	return "unbound"
}

// c01Expect returns true when the mutation must be rejected.
func c01Expect(msg int, m Mutation, orig, mutated []byte) bool {
	if !m.Semantic || string(orig) == string(mutated) {
		return false
	}
	if strings.HasPrefix(m.Kind, "raw:") {
		// structure-blind: judged only for HelloDevice, where every byte is bound
		return msg == 60
	}
	switch msg {
	case 60:
		return true
	case 61, 33:
		return signRegion(m.Path, "") == "bound"
	case 63:
		if m.Path == "/0" && m.Kind != "absent" {
			return true
		}
		return signRegion(m.Path, "/1") == "bound"
	}
	return false
}

// Harness mirrors of the unexported wire structures (field order = CBOR array
// order of FDO 1.1 §5.5.3).
type hSigInfo struct {
	Type int64
	Info []byte
}

type hOvhProof struct {
	OVH             cbor.Bstr[fdo.VoucherHeader]
	NumOVEntries    uint8
	OVHHmac         protocol.Hmac
	NonceTO2ProveOV protocol.Nonce
	SigInfoB        hSigInfo
	KeyExchangeA    []byte
	HelloDeviceHash protocol.Hash
	MaxOwnerMsgSize uint16
}

type hOvEntry struct {
	Num   int
	Entry cose.Sign1Tag[fdo.VoucherEntryPayload, []byte]
}

// c01Equivalent reports whether the mutated message carries exactly the
// original content as far as the library's own data model is concerned: the
// typed decode of the mutated bytes re-encodes to the original bytes (for
// HelloDevice: the first data item is byte-identical). Such an alteration
// changes framing only; accepting it is not accepting a forgery. The library
// codec is used here solely to *relax* an expectation, never to create one.
func c01Equivalent(msg int, orig, mutated []byte) bool {
	re := func(v any) bool {
		if err := cbor.Unmarshal(mutated, v); err != nil {
			return false
		}
		b, err := cbor.Marshal(v)
		return err == nil && string(b) == string(orig)
	}
	switch msg {
	case 60:
		n, err := ParseCBORPrefix(mutated)
		return err == nil && string(mutated[:n.End]) == string(orig)
	case 61:
		return re(&cose.Sign1Tag[hOvhProof, []byte]{})
	case 63:
		return re(&hOvEntry{})
	case 33:
		return re(&cose.Sign1Tag[protocol.To1d, []byte]{})
	}
	return false
}

func hashFor(alg protocol.HashAlg) hash.Hash {
	if alg == protocol.Sha384Hash {
		return sha512.New384()
	}
	return sha256.New()
}

// forgeEntry appends to ov an entry naming next, signed by signer (who need
// not be the current owner); edit may alter the payload before signing.
func forgeEntry(ov *fdo.Voucher, signer, next *KeyEntry, cfg KeyCfg, edit ...func(*fdo.VoucherEntryPayload)) (*fdo.Voucher, error) {
	devPub := (*ov.CertChain)[0].PublicKey
	alg := protocol.Sha384Hash
	if hashBits(devPub) == 256 || hashBits(signer.Key.Public()) == 256 {
		alg = protocol.Sha256Hash
	}
	if len(ov.Entries) > 0 {
		alg = ov.Entries[0].Payload.Val.PreviousHash.Algorithm
	}
	h := hashFor(alg)
	if len(ov.Entries) > 0 {
		b, err := cbor.Marshal(ov.Entries[len(ov.Entries)-1])
		if err != nil {
			return nil, err
		}
		h.Write(b)
	} else {
		b, _ := cbor.Marshal(&ov.Header.Val)
		h.Write(b)
		b, _ = cbor.Marshal(ov.Hmac)
		h.Write(b)
	}
	hh := hashFor(alg)
	hh.Write(ov.Header.Val.GUID[:])
	hh.Write([]byte(ov.Header.Val.DeviceInfo))
	pk, err := PublicKeyFor(cfg, next)
	if err != nil {
		return nil, err
	}
	payload := fdo.VoucherEntryPayload{
		PreviousHash: protocol.Hash{Algorithm: alg, Value: h.Sum(nil)},
		HeaderHash:   protocol.Hash{Algorithm: alg, Value: hh.Sum(nil)},
		Extra:        cbor.NewBstr(map[int][]byte(nil)),
		PublicKey:    *pk,
	}
	for _, e := range edit {
		e(&payload)
	}
	var entry cose.Sign1Tag[fdo.VoucherEntryPayload, []byte]
	entry.Payload = cbor.NewByteWrap(payload)
	if err := entry.Sign(signer.Key, nil, nil, SignOpts(signer, cfg.PSS())); err != nil {
		return nil, err
	}
	out := *ov
	out.Entries = append(append([]cose.Sign1Tag[fdo.VoucherEntryPayload, []byte](nil), ov.Entries...), entry)
	return &out, nil
}

// hashBits is FDO's hash strength for a key: 256 for P-256/RSA2048, 384 for
// P-384/RSA3072 (FDO 1.1 §3.3.2).
func hashBits(pub any) int {
	switch k := pub.(type) {
	case *ecdsa.PublicKey:
		return k.Curve.Params().BitSize
	case *rsa.PublicKey:
		if k.N.BitLen() <= 2048 {
			return 256
		}
		return 384
	}
	return 0
}

func c01Run(env *Env, pl *C01Plan, collect map[c01Target][]byte) {
	o := env.Out
	cfg := keyCfgByName(pl.Key, pl.Enc)
	ctx := context.Background()
	s := NewStd(nil, cfg)
	rec := &ModRecorder{}
	payloads := [][]byte{[]byte("owner-service-info-for-the-device")}
	for _, on := range []string{"owner1", "owner2", "owner3"} {
		s.Nodes[on].Mods = &ModSM{Factory: PingFactory(s.Nodes[on], rec, payloads)}
	}
	devMods := func() map[string]serviceinfo.DeviceModule {
		return map[string]serviceinfo.DeviceModule{"ping": &PongDevice{Mod: "ping", Rec: rec}}
	}
	kx, cipher := kex.ECDH256Suite, kex.A128GcmCipher
	switch cfg.Fam() {
	case P384:
		kx = kex.ECDH384Suite
	case RSA2048:
		kx = kex.DHKEXid14Suite
	case RSA3072:
		kx = kex.ASYMKEX3072Suite
	}
	opts := TO2Opts{Kex: kx, Cipher: cipher, Modules: devMods()}

	harnessFail := func(step string, err error) {
		// honest preparation failed: not a C01 verdict; surfaces as a violation of
		// the baseline so that it cannot be missed
		o.Class = "setup-failed:" + step
		o.Violate("C01", "honest-setup", step+"|"+pl.Key, "honest preparation step %s failed for %+v: %v", step, *pl, err)
	}
	tampered := false
	mustReject := true
	desc := pl.Attack
	ownerNode := "owner1"

	defer func() {
		env.Logf("plan=%+v class=%s", *pl, o.Class)
		for _, ev := range s.Net.Log {
			env.Logf("%d %s>%s %s %d/%d %s %v", ev.Seq, ev.From, ev.To, ev.Phase, ev.MsgType, ev.RespType, ev.BodyHash, ev.Faults)
		}
		for _, pr := range s.Net.Panics {
			o.Probe("panic:" + pr.Frame)
		}
		for k, v := range s.Net.Faults {
			o.Faults[k] += v
		}
	}()

	// leaf hook (also used to collect baseline bodies)
	occ := map[c01Target]int{}
	var leafMut Mutation
	var leafOrig, leafNew []byte
	s.Net.AddHook(func(ev *NetEvent) {
		var tg c01Target
		switch {
		case ev.Phase == "req" && ev.MsgType == 60 && ev.From == "dev1":
			tg = c01Target{"req", 60, 0}
		case ev.Phase == "resp" && ev.To == "dev1" && (ev.RespType == 61 || ev.RespType == 63 || ev.RespType == 33):
			tg = c01Target{"resp", ev.RespType, 0}
		default:
			return
		}
		key := tg
		tg.Occur = occ[key]
		occ[key]++
		if collect != nil {
			if _, seen := collect[tg]; !seen {
				collect[tg] = append([]byte(nil), ev.Body...)
			}
		}
		if pl.Attack == "leaf" && !tampered && tg.Phase == pl.Phase && tg.Msg == pl.Msg && tg.Occur == pl.Occur {
			muts := AllMutations(ev.Body)
			if len(muts) == 0 {
				return
			}
			leafMut = muts[pl.Ord%len(muts)]
			leafOrig = ev.Body
			leafNew = leafMut.ApplyAny()
			ev.Body = leafNew
			ev.Fault("leaf:" + fmt.Sprint(pl.Msg))
			tampered = true
		}
	})

	// --- honest history ---
	var d1 *Device
	var chain []*fdo.Voucher
	var err error
	if pl.Attack == "rogueOldEpoch" {
		// epoch 0: device onboarded by owner2 (credential replaced); epoch 1: the
		// replacement voucher is resold to owner1
		d1, chain, err = s.Provision(ctx, "dev1", "dev1", "mfg", "owner2")
		if err != nil {
			harnessFail("provision", err)
			return
		}
		if _, err := s.TO2(ctx, d1, "owner2", nil, opts); err != nil {
			harnessFail("epoch0-TO2", err)
			return
		}
		opts.Modules = devMods()
		ov, err := s.Nodes["owner2"].Store.RemoveVoucher(ctx, d1.Cred.GUID)
		if err != nil {
			harnessFail("epoch1-remove", err)
			return
		}
		if ov, err = ExtendWith(ov, s.Keys.Get("owner2", cfg.Fam()), s.Keys.Get("owner1", cfg.Fam()), cfg); err != nil {
			harnessFail("epoch1-extend", err)
			return
		}
		if err := s.Nodes["owner1"].Store.AddVoucher(ctx, ov); err != nil {
			harnessFail("epoch1-add", err)
			return
		}
	} else {
		d1, chain, err = s.Provision(ctx, "dev1", "dev1", "mfg", c01Chains[pl.Chain]...)
		if err != nil {
			harnessFail("provision", err)
			return
		}
	}
	d2, chain2, err := s.Provision(ctx, "dev2", "dev2", "mfg", "owner1")
	if err != nil {
		harnessFail("provision2", err)
		return
	}
	_, chain3, err := s.Provision(ctx, "dev3", "dev3", "mfg2", "owner1")
	if err != nil {
		harnessFail("provision3", err)
		return
	}
	_ = d2

	var to1d *to1dT
	if pl.To1d {
		if _, err := s.TO0(ctx, "owner1", "rv", d1.Cred.GUID, 3600); err != nil {
			harnessFail("TO0", err)
			return
		}
		to1d, err = s.TO1(ctx, d1, "rv")
		if err != nil {
			if pl.Attack == "leaf" && pl.Msg == 33 && tampered {
				o.Class = "to1-rejected"
				o.Fault("leaf:33")
				return
			}
			harnessFail("TO1", err)
			return
		}
	}

	// --- adversary ---
	recorded := map[c01Target][]byte{}
	needRecording := pl.Attack == "replay61" || strings.HasPrefix(pl.Attack, "swapEntries")
	if needRecording {
		// a first session of the same device that the network cuts at SetupDevice
		cut := true
		s.Net.AddHook(func(ev *NetEvent) {
			if !cut {
				return
			}
			if ev.Phase == "resp" && ev.To == "dev1" && ev.RespType == 61 {
				recorded[c01Target{"resp", 61, 0}] = ev.Body
			}
			if ev.Phase == "resp" && ev.To == "dev1" && ev.RespType == 63 {
				recorded[c01Target{"resp", 63, len(recorded)}] = ev.Body
			}
			if ev.Phase == "resp" && ev.RespType == 65 {
				ev.Drop = true
				ev.Fault("drop_resp")
			}
		})
		_, err := s.TO2(ctx, d1, "owner1", to1d, opts)
		cut = false
		if err == nil {
			harnessFail("recording-session", fmt.Errorf("cut session unexpectedly succeeded"))
			return
		}
		opts.Modules = devMods()
		occ = map[c01Target]int{}
	}

	switch pl.Attack {
	case "none":
		mustReject = false
	case "leaf":
		// hook already installed
	case "resign61":
		key := s.Keys.Get(pl.KeyRole, cfg.Fam())
		s.Net.AddHook(func(ev *NetEvent) {
			if ev.Phase == "resp" && ev.To == "dev1" && ev.RespType == 61 && !tampered {
				b, err := ResignTagged(ev.Body, key, cfg.PSS(), func(sg *cose.Sign1[cbor.RawBytes, []byte]) {
					if pl.Swap {
						pk, _ := PublicKeyFor(cfg, key)
						sg.Unprotected[cose.Label{Int64: 257}] = pk
					}
				})
				if err == nil {
					ev.Body = b
					ev.Fault("resign")
					tampered = true
				}
			}
		})
	case "zeroEntriesResign":
		// a peer without any standing claims an unextended voucher (zero entries:
		// the manufacturer would be the owner), advertises its own key and signs
		// with it; header and HMAC are the genuine, public ones
		key := s.Keys.Get(pl.KeyRole, cfg.Fam())
		s.Net.AddHook(func(ev *NetEvent) {
			if ev.Phase == "resp" && ev.To == "dev1" && ev.RespType == 61 && !tampered {
				b, err := ResignTagged(ev.Body, key, cfg.PSS(), func(sg *cose.Sign1[cbor.RawBytes, []byte]) {
					pk, _ := PublicKeyFor(cfg, key)
					sg.Unprotected[cose.Label{Int64: 257}] = pk
					n, perr := ParseCBOR(sg.Payload.Val)
					if perr == nil && len(n.Kids) > 1 {
						n.Kids[1].Arg = 0
						sg.Payload.Val = n.Encode(nil)
					}
				})
				if err == nil {
					ev.Body = b
					ev.Fault("resign")
					tampered = true
				}
			}
		})
		if to1d != nil {
			// with a redirect blob the same peer signs that as well
			var raw cose.Sign1[cbor.RawBytes, []byte]
			tb, _ := cbor.Marshal(to1d)
			if err := cbor.Unmarshal(tb, &raw); err == nil {
				raw.Protected = nil
				if err := raw.Sign(key.Key, nil, nil, SignOpts(key, cfg.PSS())); err == nil {
					tb, _ = cbor.Marshal(raw)
					var forged to1dT
					if cbor.Unmarshal(tb, &forged) == nil {
						to1d = &forged
					}
				}
			}
		}
	case "truncChainResign":
		// earlier owner (owner2) re-signs, advertises its own key and truncates
		// the entry list to its own entry: the statement allows acceptance
		mustReject = false
		key := s.Keys.Get("owner2", cfg.Fam())
		keep := 1
		if pl.Chain == 3 {
			keep = 2
		}
		s.Net.AddHook(func(ev *NetEvent) {
			if ev.Phase == "resp" && ev.To == "dev1" && ev.RespType == 61 && !tampered {
				b, err := ResignTagged(ev.Body, key, cfg.PSS(), func(sg *cose.Sign1[cbor.RawBytes, []byte]) {
					pk, _ := PublicKeyFor(cfg, key)
					sg.Unprotected[cose.Label{Int64: 257}] = pk
					n, perr := ParseCBOR(sg.Payload.Val)
					if perr == nil && len(n.Kids) > 1 {
						n.Kids[1].Arg = uint64(keep)
						sg.Payload.Val = n.Encode(nil)
					}
				})
				if err == nil {
					ev.Body = b
					ev.Fault("resign")
					tampered = true
				}
			}
		})
	case "resign63":
		key := s.Keys.Get(pl.KeyRole, cfg.Fam())
		// the legitimate signer of entry i is the previous owner; skip that case
		legit := "mfg"
		if pl.Occur > 0 {
			legit = c01Chains[pl.Chain][pl.Occur-1]
		}
		if pl.KeyRole == legit {
			mustReject = false
		}
		seen := 0
		s.Net.AddHook(func(ev *NetEvent) {
			if ev.Phase == "resp" && ev.To == "dev1" && ev.RespType == 63 {
				if seen == pl.Occur && !tampered {
					n, err := ParseCBOR(ev.Body)
					if err == nil && len(n.Kids) == 2 {
						entry := ev.Body[n.Kids[1].Start:n.Kids[1].End]
						if nb, err := ResignTagged(entry, key, cfg.PSS(), nil); err == nil {
							ev.Body = append(append([]byte(nil), ev.Body[:n.Kids[1].Start]...), nb...)
							ev.Fault("resign")
							tampered = true
						}
					}
				}
				seen++
			}
		})
	case "resignTo1d":
		key := s.Keys.Get(pl.KeyRole, cfg.Fam())
		var raw cose.Sign1[cbor.RawBytes, []byte]
		b, _ := cbor.Marshal(to1d)
		if err := cbor.Unmarshal(b, &raw); err != nil {
			harnessFail("to1d-recode", err)
			return
		}
		raw.Protected = nil
		if err := raw.Sign(key.Key, nil, nil, SignOpts(key, cfg.PSS())); err != nil {
			harnessFail("to1d-resign", err)
			return
		}
		b, _ = cbor.Marshal(raw)
		var forged to1dT
		if err := cbor.Unmarshal(b, &forged); err != nil {
			harnessFail("to1d-recode2", err)
			return
		}
		to1d = &forged
		tampered = true
		o.Fault("resign")
	case "rogueOtherDevice":
		s.AddRogueOwner("rogue", "owner1", chain2[len(chain2)-1])
		ownerNode, tampered = "rogue", true
		o.Fault("substitute")
	case "rogueOtherMfg":
		s.AddRogueOwner("rogue", "owner1", chain3[len(chain3)-1])
		ownerNode, tampered = "rogue", true
		o.Fault("substitute")
	case "rogueOldEpoch":
		s.AddRogueOwner("rogue", "owner2", chain[1])
		ownerNode, tampered = "rogue", true
		o.Fault("substitute")
	case "rogueAppend":
		fv, err := forgeEntry(chain[len(chain)-1], s.Keys.Get("att1", cfg.Fam()), s.Keys.Get("att2", cfg.Fam()), cfg)
		if err != nil {
			harnessFail("forge-entry", err)
			return
		}
		s.AddRogueOwner("rogue", "att2", fv)
		ownerNode, tampered = "rogue", true
		o.Fault("inject")
	case "rogueBadHeaderHash":
		// the legitimate signer (manufacturer) extends with a wrong header hash:
		// only the header-hash comparison stands between this chain and acceptance
		fv, err := forgeEntry(chain[0], s.Keys.Get("mfg", cfg.Fam()), s.Keys.Get("owner1", cfg.Fam()), cfg, func(p *fdo.VoucherEntryPayload) {
			p.HeaderHash.Value = append([]byte(nil), p.HeaderHash.Value...)
			p.HeaderHash.Value[0] ^= 0x40
		})
		if err != nil {
			harnessFail("forge-entry", err)
			return
		}
		s.AddRogueOwner("rogue", "owner1", fv)
		ownerNode, tampered = "rogue", true
		o.Fault("inject")
	case "rogueForgedHeader", "rogueForgedHeaderHmacFault":
		// an insider holding the manufacturer key rewrites the header; it cannot
		// compute the device's HMAC over it and sends an empty one. In the fault
		// variant the device's HMAC engine (hardware style, with an Err method)
		// fails its Occur-th finalisation of this TO2.
		base := *chain[0]
		hv := base.Header.Val
		hv.DeviceInfo = "forged-" + hv.DeviceInfo
		base.Header = *cbor.NewBstr(hv)
		base.Hmac.Value = []byte{}
		fv, err := forgeEntry(&base, s.Keys.Get("mfg", cfg.Fam()), s.Keys.Get("att1", cfg.Fam()), cfg)
		if err != nil {
			harnessFail("forge-entry", err)
			return
		}
		s.AddRogueOwner("rogue", "att1", fv)
		ownerNode, tampered = "rogue", true
		o.Fault("inject")
		if pl.Attack == "rogueForgedHeaderHmacFault" {
			d1.HmacSums, d1.HmacFailSum = 0, pl.Occur
			o.Fault("hmac-engine-fails")
		}
	case "rogueGoodForgedEntry":
		// control for the entry builder: a correct entry by the legitimate
		// signer must be accepted
		fv, err := forgeEntry(chain[0], s.Keys.Get("mfg", cfg.Fam()), s.Keys.Get("owner1", cfg.Fam()), cfg)
		if err != nil {
			harnessFail("forge-entry", err)
			return
		}
		s.AddRogueOwner("rogue", "owner1", fv)
		ownerNode, mustReject = "rogue", false
		for _, on := range []string{"rogue"} {
			s.Nodes[on].Mods = &ModSM{Factory: PingFactory(s.Nodes[on], rec, payloads)}
		}
	case "rogueSplice":
		// the first extension made twice with different extra info; the tail of
		// the chain was made over the first variant
		owners := c01Chains[pl.Chain]
		alt, err := ExtendWithExtra(chain[0], s.Keys.Get("mfg", cfg.Fam()), s.Keys.Get(owners[0], cfg.Fam()), cfg, map[int][]byte{7: []byte("branch")})
		if err != nil {
			harnessFail("splice-extend", err)
			return
		}
		full := chain[len(chain)-1]
		spliced := *full
		spliced.Entries = append([]cose.Sign1Tag[fdo.VoucherEntryPayload, []byte]{alt.Entries[0]}, full.Entries[1:]...)
		s.AddRogueOwner("rogue", "owner1", &spliced)
		ownerNode, tampered = "rogue", true
		o.Fault("substitute")
	case "replay61":
		s.Net.AddHook(func(ev *NetEvent) {
			if ev.Phase == "resp" && ev.To == "dev1" && ev.RespType == 61 && !tampered {
				ev.Body = recorded[c01Target{"resp", 61, 0}]
				ev.Fault("substitute")
				tampered = true
			}
		})
	case "swapEntries", "swapEntriesRenumber":
		seen := 0
		s.Net.AddHook(func(ev *NetEvent) {
			if ev.Phase == "resp" && ev.To == "dev1" && ev.RespType == 63 {
				other := recorded[c01Target{"resp", 63, 1 + (seen+1)%pl.Chain}]
				if other != nil {
					body := other
					if pl.Attack == "swapEntriesRenumber" {
						if n, err := ParseCBOR(other); err == nil && len(n.Kids) == 2 {
							n.Kids[0] = &CNode{Major: 0, Arg: uint64(seen)}
							body = n.Encode(nil)
						}
					}
					ev.Body = body
					ev.Fault("substitute")
					tampered = true
				}
				seen++
			}
		})
	default:
		harnessFail("unknown-attack", fmt.Errorf("%q", pl.Attack))
		return
	}

	obs := s.ObservedTO2(ctx, d1, ownerNode, to1d, opts, rec, func() bool { return tampered })

	if pl.Attack == "leaf" {
		if !tampered {
			o.Class = "noop"
			return
		}
		mustReject = c01Expect(pl.Msg, leafMut, leafOrig, leafNew)
		desc = fmt.Sprintf("leaf %s/%d#%d %s", pl.Phase, pl.Msg, pl.Occur, leafMut)
		o.Sample = map[string]any{"mutation": leafMut.String(), "must_reject": mustReject, "device": obs.String()}
	} else {
		o.Sample = map[string]any{"attack": desc, "must_reject": mustReject, "device": obs.String()}
	}
	if tampered {
		o.Nontrivial = true
	}
	switch {
	case pl.Attack == "rogueGoodForgedEntry":
		if obs.Err != nil {
			o.Violate("C01", "honest-run-must-succeed", "forged-entry-control|"+pl.Key, "a correct chain built by the harness' entry builder was refused: %s", obs)
		}
		o.Class = "control-ok"
	case pl.Attack == "none":
		if obs.Err != nil || obs.ModCalls == 0 || !obs.CredChanged {
			o.Violate("C01", "honest-run-must-succeed", pl.Key, "honest TO2 failed: %s", obs)
		}
		o.Class = "honest-ok"
	case mustReject && obs.Accepted() && pl.Attack == "leaf" && c01Equivalent(pl.Msg, leafOrig, leafNew):
		o.Class = "equivalent-encoding-accepted"
		o.Probe("accepted-noncanonical-but-equal-content")
	case mustReject && obs.Accepted():
		o.Class = "ACCEPTED-FORGERY"
		o.Violate("C01", "forgery-accepted", attackKey(pl, leafMut), "device accepted %s: %s (plan %+v)", desc, obs, *pl)
	case mustReject:
		o.Class = "rejected"
	case obs.Err == nil:
		o.Class = "either-accepted"
		if pl.Attack == "truncChainResign" {
			o.Probe("truncated-chain-previous-owner-accepted")
		}
	default:
		o.Class = "either-rejected"
	}
}

func attackKey(pl *C01Plan, m Mutation) string {
	if pl.Attack == "leaf" {
		return fmt.Sprintf("leaf|%d|%s|%s", pl.Msg, regionKey(m.Path), m.Kind)
	}
	return fmt.Sprintf("%s|%s|swap=%v", pl.Attack, pl.KeyRole, pl.Swap)
}

// regionKey shortens a path to its first three segments for finding keys.
func regionKey(path string) string {
	seg := strings.Split(path, "/")
	if len(seg) > 4 {
		seg = seg[:4]
	}
	return strings.Join(seg, "/")
}
