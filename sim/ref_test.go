package fdosim

import (
	"crypto/sha256"
	"encoding/hex"
	"testing"
)

// TestRefKDFVector validates the harness' reference KDF against the external
// vector shipped with the repository's nistkdf tests, and the recomputed
// RFC 3526 primes against their well-known leading/trailing words.
func TestRefKDFVector(t *testing.T) {
	shSe, _ := hex.DecodeString("08c9dc0cc5e9dd2558a12ae60cd00670d01a09cca52bae8a671a21e1babdb25bc21963c48b4aa77bb8ed338f0c5a15efee069ce10a09be2aacf857b8dcd9df8e")
	want := "e5e959c8cbdd5989c819f7ea8c69bcb3f70a442830ba235c5aa0b4047d0cda0b"
	if got := hex.EncodeToString(RefKDF(sha256.New, shSe, nil, 256)); got != want {
		t.Fatalf("reference KDF %s, vector %s", got, want)
	}
	p14, p15 := refPrimes()
	h14, h15 := p14.Text(16), p15.Text(16)
	if len(h14) != 512 || h14[:32] != "ffffffffffffffffc90fdaa22168c234" || h14[len(h14)-32:] != "15728e5a8aacaa68ffffffffffffffff" || !p14.ProbablyPrime(8) {
		t.Fatalf("group 14 prime wrong: %s…%s", h14[:32], h14[len(h14)-32:])
	}
	if len(h15) != 768 || h15[:32] != "ffffffffffffffffc90fdaa22168c234" || h15[len(h15)-32:] != "4b82d120a93ad2caffffffffffffffff" || !p15.ProbablyPrime(8) {
		t.Fatalf("group 15 prime wrong: %s…%s", h15[:32], h15[len(h15)-32:])
	}
}
