package fdosim

import (
	"bytes"
	"context"
	"fmt"
	"io"
	"net/http"
	"net/http/httptest"
	"runtime/debug"
	"strconv"
	"strings"
	"sync"
)

// NetEvent is one message in flight on the simulated network. Hooks may
// mutate it (Body, Token, Path, ...) or drop it; what is delivered is what is
// left after all hooks ran.
type NetEvent struct {
	// HangUp: the sender disconnects as soon as the server starts to answer
	// (the server-side request context is cancelled at that moment).
	HangUp bool `json:"hang_up,omitempty"`
	// CancelBefore: the request context is already cancelled when the handler
	// starts (the sender was gone before the server got to the request).
	CancelBefore bool `json:"cancel_before,omitempty"`
	// CancelAtStmt > 0 (sqlite nodes): the request context is cancelled when the
	// backend logs its n-th SQL statement while this request is handled.
	CancelAtStmt int `json:"cancel_at_stmt,omitempty"`
	// CancelStmtMatch restricts the count to statements whose logged text
	// contains this string (e.g. a table name).
	CancelStmtMatch string `json:"cancel_stmt_match,omitempty"`
	Seq             int    `json:"seq"`
	From            string `json:"from"`
	To              string `json:"to"`
	Phase           string `json:"phase"` // "req" or "resp"
	MsgType         uint8  `json:"msg"`   // request message type (from the path)
	RespType        int    `json:"resp_type,omitempty"`
	// OrigRespType is the response type as produced by the server, before any
	// hook altered the event.
	OrigRespType int    `json:"-"`
	Status       int    `json:"status,omitempty"`
	Token        string `json:"-"`
	Body         []byte `json:"-"`
	OrigBody     []byte `json:"-"`

	Path   string `json:"path,omitempty"`
	Method string `json:"method,omitempty"`
	// ContentLength, if non-nil, overrides the Content-Length of the delivered
	// message (-1: unknown).
	ContentLength *int64   `json:"-"`
	ContentType   string   `json:"-"`
	Drop          bool     `json:"drop,omitempty"`
	Dup           bool     `json:"dup,omitempty"`
	Faults        []string `json:"faults,omitempty"`
	BodyHash      string   `json:"body"`
	Session       string   `json:"-"` // label given by the client link
	// EffFrom/EffTo delimit the effect-journal entries written while the target
	// node handled this request (request events only).
	EffFrom, EffTo int  `json:"-"`
	Adversary      bool `json:"adv,omitempty"`
	ReqSeq         int  `json:"req_seq,omitempty"` // response events: Seq of their request
}

// Fault marks the event as altered by a fault of the given kind.
func (e *NetEvent) Fault(kind string) { e.Faults = append(e.Faults, kind) }

// Hook observes and possibly alters a message in flight.
type Hook func(ev *NetEvent)

// PanicRecord is a recovered panic of an endpoint.
type PanicRecord struct {
	Where string `json:"where"`
	Value string `json:"value"`
	Frame string `json:"frame"` // top library frame
	Stack string `json:"-"`
	Msg   uint8  `json:"msg"`
}

// Net is the only network the parties see.
type Net struct {
	K     *Kernel
	mu    sync.Mutex
	seq   int
	nodes map[string]*Node
	hooks []Hook
	// NoLog disables the shared recorder (race builds: a shared log would add
	// happens-before edges between sessions).
	Journal *Journal
	NoLog   bool
	// MaxMsgs bounds the number of requests of a run (0 = 4000). Beyond it the
	// network stops delivering, so that a run that would otherwise exchange up
	// to the library's 1e6 service-info rounds ends quickly.
	MaxMsgs   int
	reqs      int
	Exhausted bool
	Log       []*NetEvent
	Faults    map[string]int
	Panics    []PanicRecord
}

func NewNet(k *Kernel) *Net {
	return &Net{K: k, nodes: map[string]*Node{}, Faults: map[string]int{}}
}

func (n *Net) AddNode(node *Node)     { n.nodes[node.Name] = node }
func (n *Net) AddHook(h Hook)         { n.hooks = append(n.hooks, h) }
func (n *Net) ClearHooks()            { n.hooks = nil }
func (n *Net) Node(name string) *Node { return n.nodes[name] }

// Seq returns the sequence number of the last recorded event.
func (n *Net) Seq() int {
	n.mu.Lock()
	defer n.mu.Unlock()
	return n.seq
}

func (n *Net) record(ev *NetEvent) {
	if n.NoLog {
		return
	}
	n.mu.Lock()
	defer n.mu.Unlock()
	n.seq++
	ev.Seq = n.seq
	ev.BodyHash = digest(ev.Body)
	for _, f := range ev.Faults {
		n.Faults[f]++
	}
	c := *ev
	c.Body = append([]byte(nil), ev.Body...)
	n.Log = append(n.Log, &c)
}

// setEff copies the effect window of a handled request into its log record.
func (n *Net) setEff(ev *NetEvent) {
	if n.NoLog {
		return
	}
	n.mu.Lock()
	defer n.mu.Unlock()
	for i := len(n.Log) - 1; i >= 0; i-- {
		if n.Log[i].Seq == ev.Seq && n.Log[i].Phase == "req" {
			n.Log[i].EffFrom, n.Log[i].EffTo = ev.EffFrom, ev.EffTo
			return
		}
	}
}

func (n *Net) addPanic(p PanicRecord) {
	n.mu.Lock()
	defer n.mu.Unlock()
	n.Panics = append(n.Panics, p)
}

// Link returns the round-tripper used by a client `from` talking to node `to`.
func (n *Net) Link(from, to string) *Link { return &Link{n: n, from: from, to: to} }

type Link struct {
	n        *Net
	from, to string
	Session  string
}

// ErrNetDropped is the transport error a client sees for a lost message.
var ErrNetDropped = fmt.Errorf("simnet: message lost")

func msgTypeOfPath(p string) uint8 {
	i := strings.LastIndexByte(p, '/')
	v, err := strconv.ParseUint(p[i+1:], 10, 8)
	if err != nil {
		return 0
	}
	return uint8(v)
}

func (l *Link) RoundTrip(req *http.Request) (*http.Response, error) {
	var body []byte
	if req.Body != nil {
		body, _ = io.ReadAll(req.Body)
		_ = req.Body.Close()
	}
	ev := &NetEvent{From: l.from, To: l.to, Phase: "req", MsgType: msgTypeOfPath(req.URL.Path), Token: req.Header.Get("Authorization"),
		Body: body, OrigBody: body, Path: req.URL.Path, Method: req.Method, ContentType: req.Header.Get("Content-Type"), Session: l.Session}
	resp, err := l.n.Deliver(ev)
	if err != nil {
		return nil, err
	}
	resp.Request = req
	return resp, nil
}

// Deliver sends a request event through the hooks to its target node and the
// response back through the hooks. It is also the entry point for
// adversary-originated (injected) requests.
func (n *Net) Deliver(ev *NetEvent) (*http.Response, error) {
	n.mu.Lock()
	n.reqs++
	over := n.reqs > max(n.MaxMsgs, 4000) || (n.MaxMsgs > 0 && n.reqs > n.MaxMsgs)
	if over {
		n.Exhausted = true
	}
	n.mu.Unlock()
	if over {
		return nil, fmt.Errorf("simnet: message budget of the run exhausted")
	}
	n.K.Yield("net.req")
	for _, h := range n.hooks {
		h(ev)
	}
	n.record(ev)
	if ev.Drop {
		return nil, ErrNetDropped
	}
	node := n.nodes[ev.To]
	if node == nil {
		return nil, fmt.Errorf("simnet: no route to %q", ev.To)
	}
	if ev.Dup {
		_ = node.Serve(n, ev)
	}
	ev.EffFrom = n.Journal.Len()
	rr := node.Serve(n, ev)
	ev.EffTo = n.Journal.Len()
	n.setEff(ev)
	res := rr.Result()
	rbody, _ := io.ReadAll(res.Body)
	rt := -1
	if v, err := strconv.Atoi(strings.TrimSpace(res.Header.Get("Message-Type"))); err == nil {
		rt = v
	}
	rev := &NetEvent{From: ev.To, To: ev.From, Phase: "resp", MsgType: ev.MsgType, RespType: rt, OrigRespType: rt, Status: res.StatusCode,
		Token: res.Header.Get("Authorization"), Body: rbody, OrigBody: rbody, ContentType: res.Header.Get("Content-Type"), Session: ev.Session,
		Adversary: ev.Adversary, ReqSeq: ev.Seq}
	n.K.Yield("net.resp")
	for _, h := range n.hooks {
		h(rev)
	}
	n.record(rev)
	if rev.Drop {
		return nil, ErrNetDropped
	}
	out := &http.Response{
		Status:        strconv.Itoa(rev.Status) + " " + http.StatusText(rev.Status),
		StatusCode:    rev.Status,
		Proto:         "HTTP/1.1",
		ProtoMajor:    1,
		ProtoMinor:    1,
		Header:        http.Header{},
		Body:          io.NopCloser(bytes.NewReader(rev.Body)),
		ContentLength: int64(len(rev.Body)),
	}
	if rev.ContentLength != nil {
		out.ContentLength = *rev.ContentLength
	}
	if rev.Token != "" {
		out.Header.Set("Authorization", rev.Token)
	}
	if rev.ContentType != "" {
		out.Header.Set("Content-Type", rev.ContentType)
	}
	if rev.RespType >= 0 {
		out.Header.Set("Message-Type", strconv.Itoa(rev.RespType))
	}
	return out, nil
}

// Serve hands a request event to the node's HTTP handler, recovering panics.
func (node *Node) Serve(n *Net, ev *NetEvent) (rr *httptest.ResponseRecorder) {
	rr = httptest.NewRecorder()
	method := ev.Method
	if method == "" {
		method = http.MethodPost
	}
	path := ev.Path
	if path == "" {
		path = "/fdo/101/msg/" + strconv.Itoa(int(ev.MsgType))
	}
	req, err := http.NewRequest(method, "http://"+node.Name+path, bytes.NewReader(ev.Body))
	if err != nil {
		rr.WriteHeader(http.StatusBadRequest)
		return rr
	}
	req.ContentLength = int64(len(ev.Body))
	if ev.ContentLength != nil {
		req.ContentLength = *ev.ContentLength
	}
	if ev.Token != "" {
		req.Header.Set("Authorization", ev.Token)
	}
	if ev.ContentType != "" {
		req.Header.Set("Content-Type", ev.ContentType)
	}
	defer func() {
		if p := recover(); p != nil {
			st := string(debug.Stack())
			n.addPanic(PanicRecord{Where: "server:" + node.Name, Value: fmt.Sprint(p), Frame: TopLibraryFrame(st), Stack: st, Msg: ev.MsgType})
			rr = httptest.NewRecorder()
			rr.WriteHeader(http.StatusServiceUnavailable)
		}
	}()
	if ev.CancelBefore {
		ctx, cancel := context.WithCancel(req.Context())
		cancel()
		node.Handler().ServeHTTP(rr, req.WithContext(ctx))
		return rr
	}
	if ev.CancelAtStmt > 0 && node.Sql != nil {
		ctx, cancel := context.WithCancel(req.Context())
		defer cancel()
		prev := node.Sql.DB.DebugLog
		stmts := 0
		node.Sql.DB.DebugLog = writerFunc(func(p []byte) (int, error) {
			if ev.CancelStmtMatch == "" || bytes.Contains(p, []byte(ev.CancelStmtMatch)) {
				if stmts++; stmts == ev.CancelAtStmt {
					cancel()
					n.mu.Lock()
					n.Faults["ctx-cancelled-at-sql-statement"]++
					n.mu.Unlock()
				}
			}
			if prev != nil {
				return prev.Write(p)
			}
			return len(p), nil
		})
		defer func() { node.Sql.DB.DebugLog = prev }()
		node.Handler().ServeHTTP(rr, req.WithContext(ctx))
		return rr
	}
	if ev.HangUp {
		// the sender goes away as soon as the server starts to answer: the
		// request context is cancelled at the first byte of the response
		ctx, cancel := context.WithCancel(req.Context())
		defer cancel()
		node.Handler().ServeHTTP(&hangUpWriter{ResponseWriter: rr, cancel: cancel}, req.WithContext(ctx))
		return rr
	}
	node.Handler().ServeHTTP(rr, req)
	return rr
}

type hangUpWriter struct {
	http.ResponseWriter
	cancel context.CancelFunc
}

func (w *hangUpWriter) WriteHeader(code int) { w.cancel(); w.ResponseWriter.WriteHeader(code) }
func (w *hangUpWriter) Write(p []byte) (int, error) {
	w.cancel()
	return w.ResponseWriter.Write(p)
}

// TopLibraryFrame extracts the innermost go-fdo frame of a stack trace.
func TopLibraryFrame(stack string) string {
	lines := strings.Split(stack, "\n")
	seenPanic := false
	for _, ln := range lines {
		if strings.HasPrefix(ln, "panic(") {
			seenPanic = true
			continue
		}
		if !seenPanic {
			continue
		}
		if strings.HasPrefix(ln, "github.com/fido-device-onboard/go-fdo") {
			f := ln
			if i := strings.LastIndexByte(f, '('); i > 0 {
				f = f[:i]
			}
			return strings.TrimPrefix(f, "github.com/fido-device-onboard/")
		}
	}
	for _, ln := range lines {
		if strings.HasPrefix(ln, "github.com/fido-device-onboard/go-fdo") {
			f := ln
			if i := strings.LastIndexByte(f, '('); i > 0 {
				f = f[:i]
			}
			return strings.TrimPrefix(f, "github.com/fido-device-onboard/")
		}
	}
	return "?"
}

// SafeCall runs a client-role function, converting a panic into a record.
func (n *Net) SafeCall(where string, f func() error) (err error, panicked bool) {
	defer func() {
		if p := recover(); p != nil {
			st := string(debug.Stack())
			n.addPanic(PanicRecord{Where: "client:" + where, Value: fmt.Sprint(p), Frame: TopLibraryFrame(st), Stack: st})
			err = fmt.Errorf("panic: %v", p)
			panicked = true
		}
	}()
	return f(), false
}
