package fdosim

import (
	"sort"

	"github.com/fido-device-onboard/go-fdo/serviceinfo"
)

// InstallHooks points the guarded hooks of /repo (build tag verif) at the
// kernel of the current run; with a nil kernel the yields are no-ops and the
// devmod module list is merely sorted (so that it does not depend on Go's map
// iteration order). Only one run executes at a time in a worker process.
func InstallHooks(k *Kernel) {
	if k == nil {
		serviceinfo.SimYield = nil
		serviceinfo.SimOrder = func(names []string) { sort.Strings(names) }
		return
	}
	serviceinfo.SimYield = func(site string) { k.Yield(site) }
	serviceinfo.SimOrder = func(names []string) {
		sort.Strings(names)
		k.Shuffle(names)
	}
}
