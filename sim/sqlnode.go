package fdosim

import (
	"context"
	"encoding/hex"
	"fmt"
	"os"
	"path/filepath"
	"time"

	fdo "github.com/fido-device-onboard/go-fdo"
	"github.com/fido-device-onboard/go-fdo/cbor"
	"github.com/fido-device-onboard/go-fdo/cose"
	"github.com/fido-device-onboard/go-fdo/kex"
	"github.com/fido-device-onboard/go-fdo/protocol"
	"github.com/fido-device-onboard/go-fdo/sqlite"
)

// journalBackend decorates a Backend (the real sqlite.DB) with the effect
// journal, kernel yields and token bookkeeping the oracles need.
type journalBackend struct {
	Backend
	node  string
	j     *Journal
	yield func(string)
}

func (b *journalBackend) y(m string) {
	if b.yield != nil {
		b.yield("store." + m)
	}
}

func (b *journalBackend) tok(ctx context.Context) string {
	t, _ := b.Backend.TokenFromContext(ctx)
	return t
}

func (b *journalBackend) NewToken(ctx context.Context, p protocol.Protocol) (string, error) {
	b.y("NewToken")
	t, err := b.Backend.NewToken(ctx, p)
	if err == nil {
		b.j.Add(Effect{Node: b.node, Token: t, Op: "NewToken", Key: p.String()})
	}
	return t, err
}

func (b *journalBackend) InvalidateToken(ctx context.Context) error {
	b.y("InvalidateToken")
	err := b.Backend.InvalidateToken(ctx)
	if err == nil {
		b.j.Add(Effect{Node: b.node, Token: b.tok(ctx), Op: "InvalidateToken"})
	}
	return err
}

func (b *journalBackend) AddVoucher(ctx context.Context, ov *fdo.Voucher) error {
	b.y("AddVoucher")
	err := b.Backend.AddVoucher(ctx, ov)
	if err == nil {
		enc, _ := cbor.Marshal(ov)
		g := ov.Header.Val.GUID
		b.j.Add(Effect{Node: b.node, Token: b.tok(ctx), Op: "AddVoucher", Key: hex.EncodeToString(g[:]), Digest: digest(enc), Note: fmt.Sprintf("entries=%d", len(ov.Entries))})
	}
	return err
}

func (b *journalBackend) ReplaceVoucher(ctx context.Context, g protocol.GUID, ov *fdo.Voucher) error {
	b.y("ReplaceVoucher")
	err := b.Backend.ReplaceVoucher(ctx, g, ov)
	if err == nil {
		enc, _ := cbor.Marshal(ov)
		ng := ov.Header.Val.GUID
		b.j.Add(Effect{Node: b.node, Token: b.tok(ctx), Op: "ReplaceVoucher", Key: hex.EncodeToString(g[:]), Digest: digest(enc), Note: hex.EncodeToString(ng[:])})
	}
	return err
}

func (b *journalBackend) RemoveVoucher(ctx context.Context, g protocol.GUID) (*fdo.Voucher, error) {
	b.y("RemoveVoucher")
	ov, err := b.Backend.RemoveVoucher(ctx, g)
	if err == nil {
		b.j.Add(Effect{Node: b.node, Op: "RemoveVoucher", Key: hex.EncodeToString(g[:])})
	}
	return ov, err
}

func (b *journalBackend) SetRVBlob(ctx context.Context, ov *fdo.Voucher, to1d *cose.Sign1[protocol.To1d, []byte], exp time.Time) error {
	b.y("SetRVBlob")
	err := b.Backend.SetRVBlob(ctx, ov, to1d, exp)
	if err == nil {
		enc, _ := cbor.Marshal(to1d)
		g := ov.Header.Val.GUID
		b.j.Add(Effect{Node: b.node, Token: b.tok(ctx), Op: "SetRVBlob", Key: hex.EncodeToString(g[:]), Digest: digest(enc), Note: fmt.Sprintf("exp=%d", exp.Unix())})
	}
	return err
}

func (b *journalBackend) SetReplacementHmac(ctx context.Context, h protocol.Hmac) error {
	b.y("SetReplacementHmac")
	err := b.Backend.SetReplacementHmac(ctx, h)
	if err == nil {
		b.j.Add(Effect{Node: b.node, Token: b.tok(ctx), Op: "SetReplacementHmac", Digest: digest(h.Value)})
	}
	return err
}

func (b *journalBackend) SetXSession(ctx context.Context, suite kex.Suite, sess kex.Session) error {
	b.y("SetXSession")
	err := b.Backend.SetXSession(ctx, suite, sess)
	if err == nil {
		b.j.Add(Effect{Node: b.node, Token: b.tok(ctx), Op: "SetXSession", Key: string(suite)})
	}
	return err
}

// SqlNode state of a node on the real sqlite backend.
type SqlNode struct {
	File string
	DB   *sqlite.DB
}

var sqlSeq int

// ScratchDir is the per-worker scratch directory for database files.
func ScratchDir() string {
	d := os.Getenv("VERIF_SCRATCH")
	if d == "" {
		d = filepath.Join(os.TempDir(), fmt.Sprintf("fdosim-scratch-%d", os.Getpid()))
	}
	_ = os.MkdirAll(d, 0o755)
	return d
}

// AddSqlNode creates a node whose whole state lives in a real sqlite.DB file.
// cleanup removes the file.
func (w *World) AddSqlNode(name, mfgRole, ownerRole string) (*Node, func(), error) {
	sqlSeq++
	file := filepath.Join(ScratchDir(), fmt.Sprintf("%s-%d.db", name, sqlSeq))
	_ = os.Remove(file)
	db, err := sqlite.Open(file, "")
	if err != nil {
		return nil, nil, err
	}
	var perr error
	w.provision(func(t protocol.KeyType, bits int, e *KeyEntry) {
		if err := db.AddManufacturerKey(t, e.Key, e.Chain); err != nil && perr == nil {
			perr = err
		}
	}, mfgRole)
	w.provision(func(t protocol.KeyType, bits int, e *KeyEntry) {
		if err := db.AddOwnerKey(t, e.Key, e.Chain); err != nil && perr == nil {
			perr = err
		}
	}, ownerRole)
	if perr != nil {
		return nil, nil, perr
	}
	jb := &journalBackend{Backend: db, node: name, j: w.Journal}
	if w.K != nil {
		jb.yield = func(s string) { w.K.Yield(s) }
	}
	n := &Node{Name: name, Store: jb, Journal: w.Journal, MfgBits: 3072, DevCA: w.Keys.Get("devca", P384), Sql: &SqlNode{File: file, DB: db}}
	w.Nodes[name] = n
	w.Net.AddNode(n)
	cleanup := func() {
		_ = n.Sql.DB.Close()
		_ = os.Remove(file)
		_ = os.Remove(file + "-journal")
		_ = os.Remove(file + "-wal")
		_ = os.Remove(file + "-shm")
	}
	return n, cleanup, nil
}

// RestartSql models a server restart for a sqlite node: a fresh sqlite.DB on
// the same file (after closing the old handle when clean is true) and fresh
// responder and handler objects.
func (n *Node) RestartSql(clean bool) error {
	if n.Sql == nil {
		return fmt.Errorf("not a sqlite node")
	}
	old := n.Sql.DB
	if clean {
		_ = old.Close()
	}
	db, err := sqlite.Open(n.Sql.File, "")
	if err != nil {
		return err
	}
	if !clean {
		_ = old.Close()
	}
	n.Sql.DB = db
	jb := n.Store.(*journalBackend)
	n.Store = &journalBackend{Backend: db, node: n.Name, j: n.Journal, yield: jb.yield}
	n.Rebuild()
	return nil
}
