package fdosim

import (
	"bytes"
	"errors"
	"fmt"
	"io"
	mrand "math/rand/v2"
	"strings"

	"github.com/fido-device-onboard/go-fdo/serviceinfo"
)

// C15 — service-info chunking is lossless, ordered and within the MTU.
// A producer task writes scripted messages through the UnchunkWriter, a
// consumer task packs chunks into batches exactly like the TO2 send loop, a
// reassembler task reads the unchunked messages back; every interleaving of
// the three is decided by the kernel through the yield hooks in chunk.go.

type C15Msg struct {
	KeyLen int   `json:"key_len"` // length of the message name part
	ValLen int   `json:"val_len"`
	Splits []int `json:"splits"` // sizes of the individual writes
	Yield  bool  `json:"yield"`  // ForceNewMessage after this message
	Same   bool  `json:"same"`   // same key as the previous message (values concatenate)
}

type C15Plan struct {
	Seed    uint64      `json:"seed"`
	Buffers int         `json:"buffers"` // 0 = unbuffered io.Pipe, else buffered pipes
	MTU     int         `json:"mtu"`
	Msgs    []C15Msg    `json:"msgs"`
	Sched   SchedPolicy `json:"sched"`
}

type c15 struct{ noPrepare }

func init() { Register(&c15{}) }

func (p *c15) ID() string    { return "C15" }
func (p *c15) Level() string { return "exploration" }
func (p *c15) NewPlan() any  { return &C15Plan{} }
func (p *c15) Rule() string {
	return "seeded scripts of 1-8 service-info messages (key lengths 1-60, value lengths 1-3000, arbitrary splits into writes, forced message breaks), MTU from the minimum usable size to 1500 (plus a deterministic sweep that places the space left in a batch at every remainder 0..40 when the next key arrives), buffered and unbuffered pipes, and a kernel-chosen interleaving (uniform random or PCT) of the producer, the batching consumer and the reassembler through the yield hooks of serviceinfo/chunk.go; oracle: reassembled (key, bytes) sequence equals the script (consecutive equal keys concatenated), every chunk's independently computed CBOR size fits the size it was asked for, every batch fits the MTU, a forced break starts a new batch, no error on either side, no deadlock; non-trivial = at least two tasks were runnable at some step; distinct = distinct (script, schedule, outcome)"
}
func (p *c15) DeadlockIsViolation() bool { return true }
func (p *c15) Exhaustive(string) bool    { return false }
func (p *c15) Components() map[string][]string {
	return map[string][]string{
		"real": {"serviceinfo.ChunkReader/UnchunkWriter (device -> wire)", "serviceinfo.ChunkWriter/UnchunkReader (wire -> module)", "bufPipe and io.Pipe hand-off", "KV.Size / ArraySizeCBOR as used by the caller"},
		"stub": {"producer, batching consumer (re-implementation of the packing loop of exchangeServiceInfoRound) and reassembler tasks", "kernel scheduler via the verif hooks", "independent CBOR size arithmetic"},
	}
}
func (p *c15) Assumptions() []string {
	return []string{
		"the consumer packs batches exactly as to2.go exchangeServiceInfoRound does (budget = MTU, budget -= chunk size, ErrSizeTooSmall starts a new batch); the real loop is exercised end-to-end under C16",
		"keys fit into an empty message (key length + 8 <= MTU); longer keys are outside the statement",
	}
}

func (p *c15) NumPlans(tier string) int {
	if tier == "thorough" {
		return 120000
	}
	return 6000
}

func cborHead(n int) int {
	switch {
	case n < 24:
		return 1
	case n < 256:
		return 2
	case n < 65536:
		return 3
	}
	return 5
}

// kvSize is the CBOR size of a ServiceInfo KV [tstr key, bstr val].
func kvSize(key string, val []byte) int {
	return 1 + cborHead(len(key)) + len(key) + cborHead(len(val)) + len(val)
}

func (p *c15) Plan(tier string, seed uint64, i int) any {
	r := mrand.New(mrand.NewPCG(seed*131+5, uint64(i)))
	pl := &C15Plan{Seed: seed*1_000_003 + uint64(i), Buffers: []int{0, 1000, 2}[i%3], Sched: []SchedPolicy{SchedRandom, SchedPCT}[(i/3)%2]}
	if i%4 == 3 {
		// remainder sweep: first message sized so that exactly `rem` bytes are left
		// in the batch when the second key arrives
		rem := (i / 4) % 41
		klen := 1 + (i/164)%30
		mtu := 120 + (i/4920)%200
		k1 := 5
		// first KV of size mtu-rem: key "m:" + k1 chars
		v1 := mtu - rem - (1 + cborHead(3+k1) + 3 + k1)
		for v1 > 0 && kvSize(strings.Repeat("k", 3+k1), make([]byte, v1)) > mtu-rem {
			v1--
		}
		if v1 < 1 {
			v1 = 1
		}
		pl.MTU = mtu
		pl.Msgs = []C15Msg{{KeyLen: k1, ValLen: v1, Splits: []int{v1}}, {KeyLen: klen, ValLen: 1 + r.IntN(300), Splits: nil}, {KeyLen: 3, ValLen: 10, Splits: nil}}
		for j := 1; j < len(pl.Msgs); j++ {
			pl.Msgs[j].Splits = []int{pl.Msgs[j].ValLen}
		}
		return pl
	}
	n := 1 + r.IntN(8)
	maxKey := 0
	for j := 0; j < n; j++ {
		m := C15Msg{KeyLen: 1 + r.IntN(60), ValLen: 1 + r.IntN(300), Yield: r.IntN(5) == 0}
		if r.IntN(6) == 0 {
			m.ValLen = 1 + r.IntN(3000)
		}
		if j > 0 {
			switch r.IntN(10) {
			case 0:
				m.KeyLen, m.Same = pl.Msgs[j-1].KeyLen, true // same key: values concatenate
			case 1:
				m.KeyLen = pl.Msgs[j-1].KeyLen // another key of the same length
			}
		}
		for rem := m.ValLen; rem > 0; {
			s := 1 + r.IntN(rem)
			m.Splits = append(m.Splits, s)
			rem -= s
		}
		maxKey = max(maxKey, m.KeyLen)
		pl.Msgs = append(pl.Msgs, m)
	}
	minMTU := maxKey + 3 + 9
	pl.MTU = minMTU + r.IntN(1500-minMTU)
	if r.IntN(4) == 0 {
		pl.MTU = minMTU + r.IntN(40)
	}
	return pl
}

func (p *c15) Shrink(plan any) []any {
	pl := plan.(*C15Plan)
	var out []any
	for i := range pl.Msgs {
		if len(pl.Msgs) > 1 {
			c := *pl
			c.Msgs = append(append([]C15Msg(nil), pl.Msgs[:i]...), pl.Msgs[i+1:]...)
			out = append(out, &c)
		}
	}
	for i, m := range pl.Msgs {
		if len(m.Splits) > 1 {
			c := *pl
			c.Msgs = append([]C15Msg(nil), pl.Msgs...)
			c.Msgs[i].Splits = []int{m.ValLen}
			out = append(out, &c)
		}
		if m.Yield {
			c := *pl
			c.Msgs = append([]C15Msg(nil), pl.Msgs...)
			c.Msgs[i].Yield = false
			out = append(out, &c)
		}
		if m.ValLen > 40 {
			c := *pl
			c.Msgs = append([]C15Msg(nil), pl.Msgs...)
			c.Msgs[i].ValLen = m.ValLen / 2
			c.Msgs[i].Splits = []int{m.ValLen / 2}
			out = append(out, &c)
		}
	}
	if pl.Sched != SchedFIFO {
		c := *pl
		c.Sched = SchedFIFO
		out = append(out, &c)
	}
	return out
}

func c15Key(i, klen int, sameAsPrev bool, prev string) string {
	if sameAsPrev && prev != "" && len(prev) == 3+klen {
		return prev
	}
	return fmt.Sprintf("m%d:", i%10) + strings.Repeat(string(rune('a'+i%26)), klen)
}

func (p *c15) Exec(env *Env, plan any) {
	pl := plan.(*C15Plan)
	o := env.Out
	k := NewKernel(pl.Seed, pl.Sched, 400000)
	InstallHooks(k)
	defer InstallHooks(nil)

	// script
	type smsg struct {
		key string
		val []byte
	}
	var script []smsg
	prev := ""
	for i, m := range pl.Msgs {
		key := c15Key(i, m.KeyLen, m.Same, prev)
		prev = key
		v := make([]byte, m.ValLen)
		for j := range v {
			v[j] = byte(i*37 + j*11 + j/251)
		}
		script = append(script, smsg{key, v})
	}
	// expected reassembly: consecutive equal keys concatenate unless a forced
	// break or ... (the statement: consecutive equal keys concatenated)
	var want []smsg
	for i, m := range script {
		if n := len(want); n > 0 && want[n-1].key == m.key {
			want[n-1].val = append(append([]byte(nil), want[n-1].val...), m.val...)
			_ = i
			continue
		}
		want = append(want, smsg{m.key, append([]byte(nil), m.val...)})
	}

	cr, uw := serviceinfo.NewChunkOutPipe(pl.Buffers)
	ur, cw := serviceinfo.NewChunkInPipe(100000)
	var perr, cerr error
	var got []smsg
	type batchRec struct {
		size  int
		kvs   int
		first string
	}
	var batches []batchRec
	var sizeViol []string
	breakAfter := map[int]bool{} // message index after which a forced break was requested
	var chunkKeys [][]string     // keys per batch

	k.Go("producer", func() {
		defer func() {
			if err := uw.Close(); err != nil && perr == nil {
				perr = fmt.Errorf("close: %w", err)
			}
		}()
		for i, m := range pl.Msgs {
			mod, name, _ := strings.Cut(script[i].key, ":")
			if err := uw.NextServiceInfo(mod, name); err != nil {
				perr = fmt.Errorf("NextServiceInfo(%d): %w", i, err)
				return
			}
			off := 0
			for _, s := range m.Splits {
				if off+s > len(script[i].val) {
					s = len(script[i].val) - off
				}
				if s <= 0 {
					continue
				}
				if _, err := uw.Write(script[i].val[off : off+s]); err != nil {
					perr = fmt.Errorf("Write(msg %d at %d): %w", i, off, err)
					return
				}
				off += s
				k.Yield("producer.between-writes")
			}
			if off < len(script[i].val) {
				if _, err := uw.Write(script[i].val[off:]); err != nil {
					perr = fmt.Errorf("Write(msg %d tail): %w", i, err)
					return
				}
			}
			if m.Yield {
				breakAfter[i] = true
				if err := uw.ForceNewMessage(); err != nil {
					perr = fmt.Errorf("ForceNewMessage(%d): %w", i, err)
					return
				}
			}
		}
	})
	k.Go("consumer", func() {
		defer func() { _ = cw.Close() }()
		budget := pl.MTU
		cur := batchRec{}
		var keys []string
		flush := func() {
			if cur.kvs > 0 {
				batches = append(batches, cur)
				chunkKeys = append(chunkKeys, keys)
			}
			cur, keys, budget = batchRec{}, nil, pl.MTU
		}
		stuck := 0
		for {
			kv, err := cr.ReadChunk(uint16(budget))
			if errors.Is(err, io.EOF) {
				flush()
				return
			}
			if errors.Is(err, serviceinfo.ErrSizeTooSmall) {
				if cur.kvs == 0 {
					stuck++
					if stuck > 3 {
						cerr = fmt.Errorf("ReadChunk keeps answering ErrSizeTooSmall for an empty batch of %d bytes", pl.MTU)
						_ = cr.Close()
						return
					}
				}
				flush()
				continue
			}
			if err != nil {
				cerr = err
				_ = cr.Close()
				return
			}
			stuck = 0
			sz := kvSize(kv.Key, kv.Val)
			if sz > budget {
				sizeViol = append(sizeViol, fmt.Sprintf("chunk of %d bytes (key %q, %d value bytes) returned for a budget of %d", sz, kv.Key, len(kv.Val), budget))
			}
			if int(kv.Size()) != sz {
				sizeViol = append(sizeViol, fmt.Sprintf("KV.Size()=%d but the encoded size is %d", kv.Size(), sz))
			}
			if len(kv.Val) == 0 {
				sizeViol = append(sizeViol, fmt.Sprintf("empty chunk for key %q", kv.Key))
			}
			budget -= sz
			cur.size += sz
			cur.kvs++
			if cur.first == "" {
				cur.first = kv.Key
			}
			keys = append(keys, kv.Key)
			if err := cw.WriteChunk(kv); err != nil {
				cerr = fmt.Errorf("reassembly WriteChunk: %w", err)
				return
			}
		}
	})
	k.Go("reassembler", func() {
		for {
			key, body, ok := ur.NextServiceInfo()
			if !ok {
				return
			}
			b, err := io.ReadAll(body)
			if err != nil {
				cerr = fmt.Errorf("reassembly read: %w", err)
				return
			}
			got = append(got, smsg{key, b})
		}
	})
	k.Run()
	o.Steps, o.MultiSteps = k.Steps, k.MultiSteps
	o.Sched = fmt.Sprintf("%s:%016x", pl.Sched, k.TraceHash())
	o.Nontrivial = k.MultiSteps > 0
	env.Logf("plan mtu=%d buffers=%d msgs=%d sched=%s steps=%d perr=%v cerr=%v batches=%d", pl.MTU, pl.Buffers, len(pl.Msgs), o.Sched, k.Steps, perr, cerr, len(batches))
	for _, t := range k.Trace {
		env.Logf("%s", t)
	}
	desc := fmt.Sprintf("mtu=%d buffers=%d", pl.MTU, pl.Buffers)
	if k.Deadlock || o.Deadlock {
		o.Class = "DEADLOCK"
		o.Violate("C15", "deadlock", fmt.Sprintf("buffers=%d", pl.Buffers), "producer/consumer/reassembler deadlocked (%s)", desc)
		return
	}
	if k.Exhausted {
		o.Class = "STEP-BUDGET"
		o.Violate("C15", "livelock", fmt.Sprintf("buffers=%d", pl.Buffers), "pipeline did not finish within %d kernel steps (%s)", k.MaxSteps, desc)
		return
	}
	if perr != nil || cerr != nil {
		o.Class = "PIPELINE-ERROR"
		o.Violate("C15", "message-failed", errClass(perr, cerr), "chunking failed (%s): producer error %v, consumer error %v; script %s", desc, perr, cerr, c15Script(pl))
		return
	}
	for _, v := range sizeViol {
		o.Class = "SIZE"
		o.Violate("C15", "chunk-exceeds-budget", "size", "%s (%s)", v, desc)
	}
	arrayHead := func(n int) int { return cborHead(n) }
	for i, b := range batches {
		if b.size+arrayHead(b.kvs) > pl.MTU+2 || b.size > pl.MTU {
			o.Class = "SIZE"
			o.Violate("C15", "batch-exceeds-mtu", "batch", "batch %d holds %d bytes of KVs for an MTU of %d", i, b.size, pl.MTU)
		}
	}
	// lossless, ordered
	if len(got) != len(want) {
		o.Class = "LOST-OR-DUPLICATED"
		o.Violate("C15", "messages-differ", fmt.Sprintf("count|%d-%d", len(want), len(got)), "%d messages written (after key merging), %d came out (%s); script %s", len(want), len(got), desc, c15Script(pl))
		return
	}
	for i := range want {
		if got[i].key != want[i].key || !bytes.Equal(got[i].val, want[i].val) {
			o.Class = "CORRUPTED"
			o.Violate("C15", "messages-differ", "content", "message %d: wrote key %q with %d bytes, read key %q with %d bytes (%s)", i, want[i].key, len(want[i].val), got[i].key, len(got[i].val), desc)
			return
		}
	}
	// a forced break starts a new batch: the message after the break must be
	// the first KV of its batch
	for i := range pl.Msgs {
		if !breakAfter[i] || i+1 >= len(script) {
			continue
		}
		nextKey := script[i+1].key
		if script[i].key == nextKey {
			continue // same key: indistinguishable on the wire
		}
		// find the batch where nextKey first appears after script[i].key
		for bi, keys := range chunkKeys {
			for ki, kk := range keys {
				if kk == nextKey && ki > 0 && keys[ki-1] == script[i].key {
					o.Class = "BREAK-IGNORED"
					o.Violate("C15", "forced-break-ignored", "break", "message %d asked for a new batch, but %q follows %q inside batch %d", i, nextKey, script[i].key, bi)
				}
			}
		}
	}
	if o.Class == "" {
		o.Class = "lossless"
	}
	o.Sample = map[string]any{"mtu": pl.MTU, "buffers": pl.Buffers, "messages": len(pl.Msgs), "batches": len(batches), "steps": k.Steps, "max_runnable": k.MaxRunnable}
}

func errClass(a, b error) string {
	s := fmt.Sprint(a, "|", b)
	switch {
	case strings.Contains(s, "could not read service info key"):
		return "key-read"
	case strings.Contains(s, "closed pipe"):
		return "closed-pipe"
	case strings.Contains(s, "ErrSizeTooSmall for an empty batch"):
		return "never-fits"
	}
	return "other"
}

func c15Script(pl *C15Plan) string {
	var s []string
	for _, m := range pl.Msgs {
		y := ""
		if m.Yield {
			y = "+break"
		}
		s = append(s, fmt.Sprintf("key%d/val%d%s", m.KeyLen+3, m.ValLen, y))
	}
	return strings.Join(s, ",")
}
